/-
  Decision model of `PackManifest` (`pack.go` `packManifestV1_0`, `packManifestV1_1`,
  `pushIfNotExist`, `pushCustomEmptyConfig`, `ensureAnnotationCreated`, `pushManifest`):
  which checks run, what is looked up and pushed in which order, and which fields the
  manifest carries.
-/
namespace Oras

inductive PackVer where | v10 | v11 deriving DecidableEq, Repr
/-- artifactType / media-type string class w.r.t. `validateMediaType`. -/
inductive MTc where | empty | valid | invalid deriving DecidableEq, Repr
inductive Created where | absent | valid | malformed deriving DecidableEq, Repr

/-- A config descriptor supplied by the caller. -/
structure CfgIn where
  mt : MTc
  isEmptyJSONType : Bool      -- media type is application/vnd.oci.empty.v1+json
  deriving DecidableEq, Repr

structure PackIn where
  ver : PackVer
  artifactType : MTc
  config : Option CfgIn
  layersEmpty : Bool
  subject : Bool
  created : Created
  targetCanCheck : Bool       -- the pusher is also a ReadOnlyStorage (Exists is consulted)
  emptyBlobPresent : Bool     -- the blob the function would invent is already in the target
  deriving DecidableEq, Repr

inductive PackEv where
  | existsConfig | pushConfig           -- the invented config blob
  | existsLayer | pushLayer             -- the invented empty layer
  | pushManifest
  deriving DecidableEq, Repr

inductive PackErr where
  | unsupportedSubject | invalidMediaType | missingArtifactType | invalidDateTime
  deriving DecidableEq, Repr

/-- What the pushed manifest says. -/
structure PackOut where
  configInvented : Bool         -- config is the placeholder / custom empty config
  configTypeFromArtifactType : Bool   -- v1.0: config.mediaType := artifactType (or the unknown-config default)
  layerPlaceholder : Bool       -- layers = [empty descriptor]
  hasSubject : Bool
  artifactTypeSet : Bool
  createdFilled : Bool          -- created annotation added by the function (clock read)
  deriving DecidableEq, Repr

/-- `pushIfNotExist` for an invented blob. -/
def inventBlob (i : PackIn) (ex push : PackEv) : List PackEv :=
  if i.targetCanCheck then (if i.emptyBlobPresent then [ex] else [ex, push]) else [push]

def pack (i : PackIn) : List PackEv × Except PackErr PackOut :=
  match i.ver with
  | .v10 =>
    if i.subject then ([], .error .unsupportedSubject)
    else
      -- config
      let cfgStep : Except PackErr (List PackEv × Bool) :=
        match i.config with
        | some c => if c.mt = .valid then .ok ([], false) else .error .invalidMediaType
        | none =>
          if i.artifactType = .invalid then .error .invalidMediaType
          else .ok (inventBlob i .existsConfig .pushConfig, true)
      match cfgStep with
      | .error e => ([], .error e)
      | .ok (evs, invented) =>
        if i.created = .malformed then (evs, .error .invalidDateTime)
        else (evs ++ [.pushManifest],
              .ok { configInvented := invented, configTypeFromArtifactType := invented,
                    layerPlaceholder := false, hasSubject := false, artifactTypeSet := false,
                    createdFilled := i.created = .absent })
  | .v11 =>
    let cfgIsEmptyType := match i.config with | none => true | some c => c.isEmptyJSONType
    if i.artifactType = .empty ∧ cfgIsEmptyType = true then ([], .error .missingArtifactType)
    else if i.artifactType = .invalid then ([], .error .invalidMediaType)
    else
      let cfgStep : Except PackErr (List PackEv × Bool) :=
        match i.config with
        | some c => if c.mt = .valid then .ok ([], false) else .error .invalidMediaType
        | none => .ok (inventBlob i .existsConfig .pushConfig, true)
      match cfgStep with
      | .error e => ([], .error e)
      | .ok (evs, invented) =>
        if i.created = .malformed then (evs, .error .invalidDateTime)
        else
          let layerEvs := if i.layersEmpty = true ∧ invented = false then inventBlob i .existsLayer .pushLayer else []
          (evs ++ layerEvs ++ [.pushManifest],
            .ok { configInvented := invented, configTypeFromArtifactType := false,
                  layerPlaceholder := i.layersEmpty, hasSubject := i.subject,
                  artifactTypeSet := i.artifactType ≠ .empty,
                  createdFilled := i.created = .absent })

end Oras
