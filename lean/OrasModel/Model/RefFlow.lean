/-
  C14, the sequential flow around one referrers tag on a registry without the Referrers API
  (`registry/remote/repository.go`: `pushWithIndexing`, `deleteWithIndexing`,
  `updateReferrersIndex`): which of the manifest, the new index and the old index is touched
  in which order, and what each injected fault leaves behind.

  The registry side is reduced to what the property observes: the set of referrer manifests
  stored, what the referrers tag lists (if it exists), and how many superseded index manifests
  are still stored.  Referrers are natural numbers (their descriptors' keys).

  The two Boolean parameters select the code before / after the repairs F22 and F23; the
  driver takes them from the regenerated source facts.
-/
namespace Oras.RefFlow

/-- The single fault of one call: the read of the old index, the push of the new one, or the
    deletion of the old one is refused. -/
inductive Fault where | none | idxGet | idxPut | idxDel
  deriving DecidableEq, Repr

/-- Outcome of a call: success, an error, or the `ReferrersError` whose
    `IsReferrersIndexDelete` is true (documented as ignorable clean-up). -/
inductive Out where | ok | err | cleanup
  deriving DecidableEq, Repr

structure Reg where
  live : List Nat                 -- referrer manifests stored
  tag : Option (List Nat)         -- what the referrers tag's index lists (`none`: no such tag)
  dangling : Nat                  -- superseded index manifests still stored
  deriving DecidableEq, Repr

def Reg.listed (r : Reg) : List Nat := r.tag.getD []

inductive Change where | add (k : Nat) | remove (k : Nat)
  deriving DecidableEq, Repr

/-- `applyReferrerChanges` for one change on a clean list: `none` is `errNoReferrerUpdate`. -/
def applyChange (old : List Nat) : Change → Option (List Nat)
  | .add k => if k ∈ old then none else some (old ++ [k])
  | .remove k => if k ∈ old then some (old.erase k) else none

/-- Steps 3 and 4 of the `update` closure of `updateReferrersIndex`: push the new index
    (non-empty, or GC skipped), then delete the old one.
    `emptyOnFail`: an empty index is pushed when the old index cannot be deleted and nothing
    has replaced it (F23). -/
def commit (skipGC emptyOnFail : Bool) (f : Fault) (r : Reg) (new : List Nat) : Reg × Out :=
  let pushes := !new.isEmpty || skipGC
  if pushes ∧ f = .idxPut then (r, .err) else
  let r1 : Reg := if pushes then { r with tag := some new, dangling := r.dangling + (if r.tag.isSome then 1 else 0) } else r
  if skipGC ∨ r.tag.isNone then (r1, .ok) else
  if f = .idxDel then
    -- the old index stays
    if !pushes ∧ emptyOnFail then ({ r1 with tag := some [], dangling := r1.dangling + 1 }, .cleanup)
    else (r1, .cleanup)
  else
    if pushes then ({ r1 with dangling := r1.dangling - 1 }, .ok)
    else ({ r1 with tag := none }, .ok)      -- the tag goes with the manifest it pointed to

/-- `updateReferrersIndex` with one change: read the old index (`prepare`), apply the change,
    then `commit`. -/
def updateIndex (skipGC emptyOnFail : Bool) (f : Fault) (r : Reg) (ch : Change) : Reg × Out :=
  if f = .idxGet then (r, .err) else
  match applyChange r.listed ch with
  | none => (r, .ok)
  | some new => commit skipGC emptyOnFail f r new

/-- `pushWithIndexing` of referrer `k`: the manifest first, then the index. -/
def push (skipGC emptyOnFail : Bool) (f : Fault) (r : Reg) (k : Nat) : Reg × Out :=
  let r0 : Reg := { r with live := if k ∈ r.live then r.live else r.live ++ [k] }
  updateIndex skipGC emptyOnFail f r0 (.add k)

/-- `deleteWithIndexing` of referrer `k`: the index first, then the manifest.
    `completes`: after the clean-up error the manifest is deleted all the same (F22). -/
def delete (skipGC emptyOnFail completes : Bool) (f : Fault) (r : Reg) (k : Nat) : Reg × Out :=
  if k ∉ r.live then (r, .err) else       -- the manifest is fetched first: not found
  match updateIndex skipGC emptyOnFail f r (.remove k) with
  | (r1, .ok) => ({ r1 with live := r1.live.erase k }, .ok)
  | (r1, .cleanup) => if completes then ({ r1 with live := r1.live.erase k }, .cleanup) else (r1, .cleanup)
  | (r1, .err) => (r1, .err)

/-- One operation of a history. -/
inductive Op where
  | push (k : Nat) (f : Fault)
  | delete (k : Nat) (f : Fault)
  deriving DecidableEq, Repr

def step (skipGC emptyOnFail completes : Bool) (r : Reg) : Op → Reg × Out
  | .push k f => push skipGC emptyOnFail f r k
  | .delete k f => delete skipGC emptyOnFail completes f r k

def run (skipGC emptyOnFail completes : Bool) (r : Reg) (ops : List Op) : Reg :=
  ops.foldl (fun r op => (step skipGC emptyOnFail completes r op).1) r

def Reg.empty : Reg := { live := [], tag := none, dangling := 0 }

end Oras.RefFlow
