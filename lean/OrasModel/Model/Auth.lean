/-
  Model of the auth client's request flow (`registry/remote/auth/client.go` `Client.Do`,
  `fetchBasicAuth`, `fetchBearerToken`) over the token cache (`cache.go`
  `concurrentCache`), against an adversarial network.

  Secrets carry the registry host they were obtained for.  Every request the client emits
  is recorded with its destination host and the secret attached.
-/
namespace Oras

abbrev Host := Nat
abbrev ScopeKey := Nat          -- canonical scope set (the cache key), abstract

inductive Sec where
  | pw (h : Host)               -- password of h's credential (also inside a Basic token)
  | rt (h : Host)               -- refresh token of h's credential
  | at_ (h : Host)              -- access token configured for h
  | tok (h : Host) (id : Nat)   -- bearer token fetched on behalf of h
  deriving DecidableEq, Repr

def Sec.host : Sec → Host
  | .pw h | .rt h | .at_ h | .tok h _ => h

inductive AScheme where | basic | bearer deriving DecidableEq, Repr

structure CEntry where
  scheme : AScheme
  tokens : List (ScopeKey × Sec)
  deriving DecidableEq, Repr

abbrev ACache := List (Host × CEntry)

def ACache.entry (c : ACache) (h : Host) : Option CEntry := (c.find? (·.1 = h)).map (·.2)

/-- `GetToken(registry, scheme, key)`. -/
def ACache.getToken (c : ACache) (h : Host) (s : AScheme) (k : ScopeKey) : Option Sec :=
  match c.entry h with
  | some e => if e.scheme = s then (e.tokens.find? (·.1 = k)).map (·.2) else none
  | none => none

/-- `Set` after a successful fetch: a scheme change invalidates the registry's entry. -/
def ACache.set (c : ACache) (h : Host) (s : AScheme) (k : ScopeKey) (t : Sec) : ACache :=
  let old := match c.entry h with
    | some e => if e.scheme = s then e.tokens.filter (·.1 ≠ k) else []
    | none => []
  (h, ⟨s, (k, t) :: old⟩) :: c.filter (·.1 ≠ h)

/-- What the registry (or whoever answers for it) replies: anything. -/
inductive Reply where
  | final                                        -- any status other than 401
  | basic                                        -- 401, Basic challenge
  | bearer (realm : Host) (key : ScopeKey)       -- 401, Bearer challenge: realm host, canonical merged scope key
  | unknown                                      -- 401 with an unrecognised or missing challenge
  deriving DecidableEq, Repr

structure CredOf where
  hasPw : Bool
  hasRt : Bool
  hasAt : Bool
  deriving DecidableEq, Repr

inductive SendKind where | registry | tokenFetch deriving DecidableEq, Repr

structure Out where
  to : Host
  sec : Option Sec
  kind : SendKind
  deriving DecidableEq, Repr

structure DoIn where
  host : Host                     -- originalReq.Host = URL host
  hintKey : ScopeKey              -- key of the scope hints in the context
  cred : CredOf                   -- credential configured for `host`
  forceOAuth2 : Bool
  r1 : Reply                      -- reply to the first send
  r2 : Reply                      -- reply to the cached-token retry (if made)
  fetchOk : Option Nat            -- token id the realm returns, or failure
  deriving DecidableEq, Repr

/-- "attempt cached auth token" (`client.go:183-201`): the token attached to the first
    send and the cache key it was looked up under. -/
def firstAttempt (c : ACache) (i : DoIn) : Option Sec × Option ScopeKey :=
  match c.entry i.host with
  | some e => (match e.scheme with
      | .basic => (c.getToken i.host .basic 0, none)
      | .bearer => (c.getToken i.host .bearer i.hintKey, some i.hintKey))
  | none => (none, none)

/-- "attempt the cache again if there is a scope change" (`client.go:239-257`): the extra
    send, and whether its reply ends the call. -/
def retryAttempt (c : ACache) (i : DoIn) (attemptedKey : Option ScopeKey) (key : ScopeKey) : List Out × Bool :=
  if some key ≠ attemptedKey then
    match c.getToken i.host .bearer key with
    | some t => ([⟨i.host, some t, .registry⟩], decide (i.r2 = .final))   -- any 401 goes on to the token fetch
    | none => ([], false)
  else ([], false)

/-- What the token fetch carries (`fetchBearerToken`, `fetchDistributionToken`,
    `fetchOAuth2Token`). -/
def carriedSecret (i : DoIn) : Option Sec :=
  if (!i.cred.hasPw && !i.cred.hasRt) then none                       -- anonymous
  else if (!i.cred.hasRt && !i.forceOAuth2) then some (.pw i.host)     -- distribution: basic auth
  else if i.cred.hasRt then some (.rt i.host) else some (.pw i.host)   -- OAuth2 grant

/-- `Client.Do` (`client.go:173-287`): emitted requests and the cache afterwards. -/
def authFlow (c : ACache) (i : DoIn) : List Out × ACache :=
  let h := i.host
  let first := firstAttempt c i
  let send1 : Out := ⟨h, first.1, .registry⟩
  match i.r1 with
  | .final => ([send1], c)
  | .unknown => ([send1], c)
  | .basic =>
    -- fetchBasicAuth: needs user name and password
    if i.cred.hasPw then
      ([send1, ⟨h, some (.pw h), .registry⟩], c.set h .basic 0 (.pw h))
    else ([send1], c)
  | .bearer realm key =>
    let retry := retryAttempt c i first.2 key
    if retry.2 then (send1 :: retry.1, c)
    else if i.cred.hasAt then
      (send1 :: retry.1 ++ [⟨h, some (.at_ h), .registry⟩], c.set h .bearer key (.at_ h))
    else
      let fetch : Out := ⟨realm, carriedSecret i, .tokenFetch⟩
      match i.fetchOk with
      | none => (send1 :: retry.1 ++ [fetch], c)
      | some id => (send1 :: retry.1 ++ [fetch, ⟨h, some (.tok h id), .registry⟩], c.set h .bearer key (.tok h id))

end Oras
