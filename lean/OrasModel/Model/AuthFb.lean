/-
  The auth client's request flow over the single-context cache
  (`registry/remote/auth/cache.go` `NewSingleContextCache` = `fallbackCache`): every token is
  stored under its scope key *and* under the empty key of the per-registry fallback
  (`hostCache`), and a lookup that misses under its key falls back to the per-registry entry.
  Same flow as `Model/Auth.lean` otherwise.
-/
import OrasModel.Model.Auth
namespace Oras

/-- `fallbackCache.GetToken`: the primary cache under `k`, else the per-registry entry
    (the empty key, 0). -/
def ACache.getTokenF (c : ACache) (h : Host) (s : AScheme) (k : ScopeKey) : Option Sec :=
  match c.getToken h s k with
  | some t => some t
  | none => c.getToken h s 0

/-- `fallbackCache.Set`: the primary cache under `k`, then the per-registry entry. -/
def ACache.setF (c : ACache) (h : Host) (s : AScheme) (k : ScopeKey) (t : Sec) : ACache :=
  (c.set h s k t).set h s 0 t

def firstAttemptF (c : ACache) (i : DoIn) : Option Sec × Option ScopeKey :=
  match c.entry i.host with
  | some e => (match e.scheme with
      | .basic => (c.getTokenF i.host .basic 0, none)
      | .bearer => (c.getTokenF i.host .bearer i.hintKey, some i.hintKey))
  | none => (none, none)

def retryAttemptF (c : ACache) (i : DoIn) (attemptedKey : Option ScopeKey) (key : ScopeKey) : List Out × Bool :=
  if some key ≠ attemptedKey then
    match c.getTokenF i.host .bearer key with
    | some t => ([⟨i.host, some t, .registry⟩], decide (i.r2 = .final))
    | none => ([], false)
  else ([], false)

/-- `Client.Do` over the single-context cache. -/
def authFlowF (c : ACache) (i : DoIn) : List Out × ACache :=
  let h := i.host
  let first := firstAttemptF c i
  let send1 : Out := ⟨h, first.1, .registry⟩
  match i.r1 with
  | .final => ([send1], c)
  | .unknown => ([send1], c)
  | .basic =>
    if i.cred.hasPw then
      ([send1, ⟨h, some (.pw h), .registry⟩], c.setF h .basic 0 (.pw h))
    else ([send1], c)
  | .bearer realm key =>
    let retry := retryAttemptF c i first.2 key
    if retry.2 then (send1 :: retry.1, c)
    else if i.cred.hasAt then
      (send1 :: retry.1 ++ [⟨h, some (.at_ h), .registry⟩], c.setF h .bearer key (.at_ h))
    else
      let fetch : Out := ⟨realm, carriedSecret i, .tokenFetch⟩
      match i.fetchOk with
      | none => (send1 :: retry.1 ++ [fetch], c)
      | some id => (send1 :: retry.1 ++ [fetch, ⟨h, some (.tok h id), .registry⟩], c.setF h .bearer key (.tok h id))

end Oras
