/-
  Lexical path functions used by the file store's write-path check
  (`content/file/file.go` `resolveWritePath`, `absPath`; Go's `filepath.Clean`, `Join`,
  `Rel` on POSIX), on lists of path segments.
-/
namespace Oras

abbrev Seg := List Char

/-- Split on '/'. "a//b/" ↦ ["a", "", "b", ""]. -/
def splitSlash : List Char → List Seg
  | [] => [[]]
  | c :: cs =>
    match splitSlash cs with
    | [] => [[]]            -- unreachable: splitSlash never returns []
    | s :: rest => if c = '/' then [] :: s :: rest else (c :: s) :: rest

def isAbsPath (s : List Char) : Bool := s.head? == some '/'

def dotdot : Seg := ['.', '.']

/-- One step of `Clean`'s scan over the elements, with the output as a stack (top first). -/
def cleanStep (abs : Bool) (stack : List Seg) (seg : Seg) : List Seg :=
  if seg = [] ∨ seg = ['.'] then stack
  else if seg = dotdot then
    match stack with
    | top :: rest => if top = dotdot then dotdot :: stack else rest
    | [] => if abs then [] else [dotdot]
  else seg :: stack

/-- `filepath.Clean` on the element list: the cleaned elements, first element first. -/
def cleanSegs (abs : Bool) (segs : List Seg) : List Seg := (segs.foldl (cleanStep abs) []).reverse

def joinSlash : List Seg → List Char
  | [] => []
  | [s] => s
  | s :: rest => s ++ '/' :: joinSlash rest

/-- `filepath.Clean` on strings. -/
def cleanPath (s : List Char) : List Char :=
  if s = [] then ['.'] else
  let abs := isAbsPath s
  let segs := cleanSegs abs (splitSlash s)
  if abs then '/' :: joinSlash segs
  else if segs = [] then ['.'] else joinSlash segs

/-- `filepath.Rel(base, target)` for two cleaned absolute paths given as element lists. -/
def relSegs : List Seg → List Seg → List Seg
  | [], ts => ts
  | bs, [] => bs.map (fun _ => dotdot)
  | b :: bs, t :: ts => if b = t then relSegs bs ts else (b :: bs).map (fun _ => dotdot) ++ t :: ts

/-- `resolveWritePath` (`file.go:609-628`) with path traversal disallowed: the cleaned
    absolute target, or `none` for `ErrPathTraversalDisallowed`.  `wd` is the cleaned
    absolute working directory as elements. -/
def resolveWritePath (wd : List Seg) (name : List Char) : Option (List Seg) :=
  let target :=
    if isAbsPath name then cleanSegs true (splitSlash name)
    else cleanSegs true (wd ++ splitSlash name)
  let rel := relSegs wd target
  if rel.head? = some dotdot then none else some target

end Oras
