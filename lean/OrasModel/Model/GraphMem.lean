/-
  Model of `internal/graph/memory.go` (`graph.Memory`): the three maps `nodes`,
  `predecessors`, `successors`, and the operations `index`, `Remove`, `Predecessors`,
  `Exists`, `IndexAll`.

  Go maps are total functions with a default ("absent" = `false` / `[]`).  A `set.Set`
  is a duplicate-free list.  A predecessors entry "exists" iff its list is non-empty,
  which is exactly how `Remove` and `Predecessors` use it (`len(entry) == 0` deletes
  the entry; a missing entry yields `nil`).
-/
import OrasModel.Model.Basic
namespace Oras

structure GMem where
  nodes : Key → Bool
  preds : Key → List Key
  succs : Key → List Key

namespace GMem

def empty : GMem := ⟨fun _ => false, fun _ => [], fun _ => []⟩

/-- `Memory.index` after `content.Successors` returned `ss` for `n`
    (`memory.go:168-193`). -/
def index (g : GMem) (n : Key) (ss : List Key) : GMem :=
  { nodes := fupd g.nodes n true
    succs := fupd g.succs n (dedup ss)
    preds := fun k => if k ∈ ss then sinsert n (g.preds k) else g.preds k }

/-- `Memory.Remove` (`memory.go:127-153`): returns the new state and the danglings. -/
def remove (g : GMem) (n : Key) : GMem × List Key :=
  let ss := g.succs n
  let preds' : Key → List Key := fun k => if k ∈ ss then (g.preds k).erase n else g.preds k
  let dang := ss.filter (fun s => (preds' s).isEmpty && g.nodes s)
  ({ nodes := fupd g.nodes n false, succs := fupd g.succs n [], preds := preds' }, dang)

/-- `Memory.Predecessors` (`memory.go:109-124`). -/
def predecessors (g : GMem) (k : Key) : List Key := g.preds k

/-- `Memory.Exists`. -/
def exists_ (g : GMem) (k : Key) : Bool := g.nodes k

/-- `Memory.IndexAll` (`memory.go:78-104`).  `succOf n = none` models
    `content.Successors` failing with not-found (a manifest-typed node whose bytes are
    absent); blob-typed nodes are never fetched and yield `some []` even when absent.
    `visited` is the tracker; the recursion takes fuel (a DAG of depth `d` needs `d+1`). -/
def indexAllAux (succOf : Key → Option (List Key)) :
    Nat → List Key → (GMem × List Key) → (GMem × List Key)
  | _, [], acc => acc
  | 0, _ :: _, acc => acc
  | fuel + 1, n :: rest, (g, visited) =>
    if n ∈ visited then indexAllAux succOf (fuel + 1) rest (g, visited)
    else
      match succOf n with
      | none => indexAllAux succOf (fuel + 1) rest (g, n :: visited)
      | some ss =>
        let acc' := indexAllAux succOf fuel ss (g.index n ss, n :: visited)
        indexAllAux succOf (fuel + 1) rest acc'
termination_by fuel l _ => (fuel, l.length)

def indexAll (succOf : Key → Option (List Key)) (fuel : Nat) (g : GMem) (root : Key) : GMem :=
  (indexAllAux succOf fuel [root] (g, [])).1

end GMem

/-- Operations on the graph memory as driven by a store: `index n` is always called
    with the successor list the node's *content* determines (`succ n`), which is the
    content-addressing assumption (same key ⇒ same bytes ⇒ same successors). -/
inductive GOp where
  | index (n : Key)
  | remove (n : Key)
  deriving Repr, DecidableEq

def GMem.apply (succ : Key → List Key) (g : GMem) : GOp → GMem
  | .index n => g.index n (succ n)
  | .remove n => (g.remove n).1

def GMem.run (succ : Key → List Key) (ops : List GOp) : GMem :=
  ops.foldl (GMem.apply succ) GMem.empty

/-- Specification of what is stored after a history: the last operation on `p` decides. -/
def storedSpec (ops : List GOp) (p : Key) : Bool :=
  ops.foldl (fun b op => match op with
      | .index n => if p = n then true else b
      | .remove n => if p = n then false else b) false

end Oras
