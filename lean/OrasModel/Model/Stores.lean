/-
  Models of the memory store (`content/memory/memory.go` over `internal/cas/memory.go`,
  `internal/resolver/memory.go`, `internal/graph/memory.go`) and of the file store
  (`content/file/file.go`: `Push`/`push`/`pushFile`/`saveFile`, `restoreDuplicates`,
  `Exists`, `Fetch`, `Tag`, `Resolve`, `Predecessors`; named content on disk, unnamed
  content in the fallback CAS).

  A node is a descriptor key (media type, digest, size).  `dig n` is the digest class of
  `n`'s bytes: two nodes with the same `dig` are the same bytes under different media types.
  Content is symbolic: a file holds the bytes of a digest class, or garbage.  Directory
  blobs (`pushDir`) are C11/C12's business and are not modelled here.
-/
import OrasModel.Model.GraphMem
import OrasModel.Model.Copy
namespace Oras

/-- A descriptor handed to a store: the content node plus the name in its
    `org.opencontainers.image.title` annotation (file store). -/
structure SDesc where
  node : Node
  name : Option Nat
  deriving DecidableEq, Repr

inductive SErr where
  | alreadyExists | notFound | missingRef | duplicateName | verify | overwrite
  deriving DecidableEq, Repr

structure StoreCfg where
  isMan : Node → Bool
  /-- the successor descriptors a manifest's bytes list (with their titles) -/
  succD : Node → List SDesc
  dig : Node → Nat

def StoreCfg.succ (c : StoreCfg) (n : Node) : List Node := (c.succD n).map (·.node)

/-! ### Memory store -/

structure MemSt where
  content : List Node                       -- cas.Memory
  refs : List (Option Nat × SDesc)          -- resolver.Memory.index (the empty reference is an ordinary key)
  graph : GMem

namespace MemSt

def empty : MemSt := ⟨[], [], GMem.empty⟩

/-- `Store.Push`: `good` says whether the reader delivers exactly the described bytes
    (C05 decides that); `cas.Memory.Push` checks existence first. -/
def push (c : StoreCfg) (st : MemSt) (n : Node) (good : Bool) : MemSt × Except SErr Unit :=
  if n ∈ st.content then (st, .error .alreadyExists)
  else if !good then (st, .error .verify)
  else ({ st with content := n :: st.content,
                  graph := st.graph.index n (if c.isMan n then c.succ n else []) }, .ok ())

def exists_ (st : MemSt) (n : Node) : Bool := decide (n ∈ st.content)

def fetch (st : MemSt) (n : Node) : Except SErr Node :=
  if n ∈ st.content then .ok n else .error .notFound

def tag (st : MemSt) (d : SDesc) (ref : Option Nat) : MemSt × Except SErr Unit :=
  if d.node ∈ st.content then ({ st with refs := (ref, d) :: st.refs.filter (·.1 ≠ ref) }, .ok ())
  else (st, .error .notFound)

def resolve (st : MemSt) (ref : Option Nat) : Except SErr SDesc :=
  match st.refs.find? (·.1 = ref) with
  | some e => .ok e.2
  | none => .error .notFound

def predecessors (st : MemSt) (n : Node) : List Node := st.graph.predecessors n

end MemSt

/-! ### File store -/

/-- What a file on disk holds: the bytes of a digest class, or an incomplete / mismatching
    write. -/
inductive FileBytes where
  | ok (dig : Nat)
  | garbage
  deriving DecidableEq, Repr

structure FileSt where
  names : List Nat                          -- names whose status says "exists"
  d2p : List (Nat × Nat)                    -- digestToPath: digest class ↦ path (a path is a name)
  files : List (Nat × FileBytes)            -- path ↦ what the file holds now
  fallback : List Node                      -- fallback CAS, keyed by full descriptor
  refs : List (Nat × SDesc)                 -- resolver (the empty reference is refused)
  graph : GMem

namespace FileSt

def empty : FileSt := ⟨[], [], [], [], [], GMem.empty⟩

def pathOf (st : FileSt) (d : Nat) : Option Nat := (st.d2p.find? (·.1 = d)).map (·.2)

def fileAt (st : FileSt) (p : Nat) : Option FileBytes := (st.files.find? (·.1 = p)).map (·.2)

def writeFile (st : FileSt) (p : Nat) (b : FileBytes) : FileSt :=
  { st with files := (p, b) :: st.files.filter (·.1 ≠ p) }

def removeFile (st : FileSt) (p : Nat) : FileSt :=
  { st with files := st.files.filter (·.1 ≠ p) }

/-- `Store.Exists`. -/
def exists_ (c : StoreCfg) (st : FileSt) (d : SDesc) : Bool :=
  match d.name with
  | some nm => if nm ∈ st.names then ((st.pathOf (c.dig d.node)).isSome || decide (d.node ∈ st.fallback)) else false
  | none => (st.pathOf (c.dig d.node)).isSome || decide (d.node ∈ st.fallback)

/-- The name gate of `Fetch`/`Exists`: a descriptor with a title is only served when that
    name exists. -/
def gate (st : FileSt) (d : SDesc) : Bool :=
  match d.name with
  | some nm => decide (nm ∈ st.names)
  | none => true

/-- `Store.Fetch`: the bytes handed back, as a digest class (or garbage). -/
def fetch (c : StoreCfg) (st : FileSt) (d : SDesc) : Except SErr FileBytes :=
  if gate st d then
    match st.pathOf (c.dig d.node) with
    | some p => (match st.fileAt p with | some b => .ok b | none => .error .notFound)
    | none => if d.node ∈ st.fallback then .ok (.ok (c.dig d.node)) else .error .notFound
  else .error .notFound

/-- `push` for a named descriptor (`file.go` `push` + `pushFile` + `saveFile`):
    `recordEarly` is the order of the source — `false`: `digestToPath` is written after the
    verified copy (the code as it is); `true` models recording it before. -/
def pushNamed (c : StoreCfg) (recordEarly : Bool) (st : FileSt) (n : Node) (nm : Nat) (good : Bool)
    (noOverwrite : Bool := false) (removeOnFail : Bool := false) :
    FileSt × Except SErr Unit :=
  if nm ∈ st.names then (st, .error .duplicateName)
  -- `DisableOverwrite`: a file that is already on disk under the name is not touched
  else if noOverwrite ∧ (st.fileAt nm).isSome then (st, .error .overwrite)
  else
    let early := if recordEarly then { st with d2p := (c.dig n, nm) :: st.d2p.filter (·.1 ≠ c.dig n) } else st
    if good then
      let s1 := early.writeFile nm (.ok (c.dig n))
      ({ s1 with d2p := (c.dig n, nm) :: s1.d2p.filter (·.1 ≠ c.dig n), names := nm :: s1.names }, .ok ())
    else if removeOnFail then
      -- `pushFile` removes what it wrote when the verified copy fails (the code as it is)
      (early.removeFile nm, .error .verify)
    else
      -- before that repair: the file was created (truncated) and holds whatever was copied
      (early.writeFile nm .garbage, .error .verify)

/-- `restoreDuplicates` (`ForceCAS = false`): every named successor of a just-pushed
    manifest whose name does not exist yet is materialised from the store's own copy of
    the same content, if it has one. -/
def restore (c : StoreCfg) (st : FileSt) (m : Node) : FileSt :=
  (c.succD m).foldl (fun s d =>
    match d.name with
    | none => s
    | some nm =>
      if nm ∈ s.names then s
      else match fetch c s ⟨d.node, none⟩ with
        | .ok (.ok b) => if b = c.dig d.node then (pushNamed c false s d.node nm true).1 else s
        | _ => s) st

/-- `Store.Push`. -/
def push (c : StoreCfg) (recordEarly : Bool) (st : FileSt) (d : SDesc) (good : Bool) (forceCAS : Bool := false)
    (noOverwrite : Bool := false) (removeOnFail : Bool := false) (ignoreNoName : Bool := false) :
    FileSt × Except SErr Unit :=
  -- `IgnoreNoName`: content without a title is discarded, the push reports success, and
  -- nothing is restored or indexed
  if ignoreNoName ∧ d.name = none then (st, .ok ()) else
  let r : FileSt × Except SErr Unit :=
    match d.name with
    | none =>
      if d.node ∈ st.fallback then (st, .error .alreadyExists)
      else if !good then (st, .error .verify)
      else ({ st with fallback := d.node :: st.fallback }, .ok ())
    | some nm => pushNamed c recordEarly st d.node nm good noOverwrite removeOnFail
  match r with
  | (s, .error e) => (s, .error e)
  | (s, .ok ()) =>
    -- `ForceCAS` only switches duplicate restoration off; the graph is indexed either way
    let s1 := if c.isMan d.node && !forceCAS then restore c s d.node else s
    ({ s1 with graph := s1.graph.index d.node (if c.isMan d.node then c.succ d.node else []) }, .ok ())

/-- `Store.Tag`. -/
def tag (c : StoreCfg) (st : FileSt) (d : SDesc) (ref : Option Nat) : FileSt × Except SErr Unit :=
  match ref with
  | none => (st, .error .missingRef)
  | some r =>
    if exists_ c st d then ({ st with refs := (r, d) :: st.refs.filter (·.1 ≠ r) }, .ok ())
    else (st, .error .notFound)

/-- `Store.Resolve`. -/
def resolve (st : FileSt) (ref : Option Nat) : Except SErr SDesc :=
  match ref with
  | none => .error .missingRef
  | some r =>
    match st.refs.find? (·.1 = r) with
    | some e => .ok e.2
    | none => .error .notFound

def predecessors (st : FileSt) (n : Node) : List Node := st.graph.predecessors n

end FileSt
end Oras
