/-
  C04: `status.Tracker.TryCommit` (`internal/status/tracker.go`), the work claim of `copyGraph`,
  `ExtendedCopyGraph` and `graph.Memory.IndexAll`: any number of workers reach one descriptor;
  each calls `TryCommit` once.  With `LoadOrStore` the claim is one atomic step; the seeded
  change C04/m10 split it into a `Load` and a `Store`.
-/
import OrasModel.Model.Basic
namespace Oras.Tracker

structure Worker where
  pc : Nat := 0            -- 0: before the call; 1: between Load and Store (split variant); 2: returned
  committed : Bool := false
  deriving DecidableEq, Repr

structure St where
  stored : Bool := false   -- the key is in the map
  ws : Nat → Worker

/-- One atomic step of worker `i`; `atomic` selects `LoadOrStore`. -/
def step (atomic : Bool) (s : St) (i : Nat) : St :=
  let w := s.ws i
  match w.pc with
  | 0 =>
    if atomic then
      if s.stored then { s with ws := fupd s.ws i { w with pc := 2 } }
      else { stored := true, ws := fupd s.ws i { pc := 2, committed := true } }
    else
      if s.stored then { s with ws := fupd s.ws i { w with pc := 2 } }
      else { s with ws := fupd s.ws i { w with pc := 1 } }
  | 1 => { stored := true, ws := fupd s.ws i { pc := 2, committed := true } }
  | _ => s

def run (atomic : Bool) (s : St) (sched : List Nat) : St := sched.foldl (step atomic) s
def init : St := { ws := fun _ => {} }
def winners (s : St) (n : Nat) : Nat := ((List.range n).filter (fun i => (s.ws i).committed)).length

end Oras.Tracker
