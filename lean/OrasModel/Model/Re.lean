/-
  Regular expressions as data, with a Brzozowski-derivative matcher.  The trees in
  `Gen/Regex.lean` are produced from the `regexp.MustCompile` literals in /repo by
  `regexp/syntax` (go/extract); `Re.accepts` is the model of Go's
  `(*Regexp).MatchString` for patterns anchored with `^…$` (the extractor strips and
  checks the anchors).
-/
namespace Oras

inductive Re where
  | empty                                   -- accepts nothing
  | eps                                     -- accepts ""
  | cls (ranges : List (Nat × Nat))         -- one character whose code point is in a range
  | cat (a b : Re)
  | alt (a b : Re)
  | star (a : Re)
  | rep (a : Re) (min : Nat) (max : Nat)    -- a{min,max}, min ≤ max
  deriving Repr, DecidableEq, Inhabited

namespace Re

def inRanges (rs : List (Nat × Nat)) (c : Char) : Bool :=
  rs.any (fun r => r.1 ≤ c.toNat && c.toNat ≤ r.2)

def nullable : Re → Bool
  | empty => false
  | eps => true
  | cls _ => false
  | cat a b => nullable a && nullable b
  | alt a b => nullable a || nullable b
  | star _ => true
  | rep a min _ => min == 0 || nullable a

/-- `cat` that absorbs `empty` on the left (keeps derivatives small). -/
def mkCat (a b : Re) : Re := match a with
  | empty => empty
  | _ => cat a b

/-- The alternatives of an expression, flattened (`empty` contributes none). -/
def alts : Re → List Re
  | alt a b => alts a ++ alts b
  | empty => []
  | r => [r]

/-- Duplicate-free version of a list of expressions. -/
def dedupRe : List Re → List Re
  | [] => []
  | r :: rs => if r ∈ rs then dedupRe rs else r :: dedupRe rs

def ofAlts : List Re → Re
  | [] => empty
  | [r] => r
  | r :: rs => alt r (ofAlts rs)

/-- `alt` up to associativity, commutativity-free idempotence and `empty`: the alternatives
    of both sides, flattened, without repetitions.  This keeps the set of derivatives of an
    expression finite (Brzozowski), so matching never blows up — nested stars over nullable
    bodies, as in the repository grammar, otherwise double the term at every character. -/
def mkAlt (a b : Re) : Re := ofAlts (dedupRe (alts a ++ alts b))

def deriv (c : Char) : Re → Re
  | empty => empty
  | eps => empty
  | cls rs => if inRanges rs c then eps else empty
  | cat a b => mkAlt (mkCat (deriv c a) b) (if nullable a then deriv c b else empty)
  | alt a b => mkAlt (deriv c a) (deriv c b)
  | star a => mkCat (deriv c a) (star a)
  | rep a min max =>
      if max = 0 then empty
      else mkCat (deriv c a) (rep a (min - 1) (max - 1))

def accepts (r : Re) : List Char → Bool
  | [] => nullable r
  | c :: s => accepts (deriv c r) s

/-- All character ranges occurring in the expression. -/
def alphabet : Re → List (Nat × Nat)
  | empty => []
  | eps => []
  | cls rs => rs
  | cat a b => alphabet a ++ alphabet b
  | alt a b => alphabet a ++ alphabet b
  | star a => alphabet a
  | rep a _ _ => alphabet a

end Re
end Oras
