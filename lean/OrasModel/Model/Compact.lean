/-
  The in-place compaction loop of `removeForeignLayers` (`copy.go`) and `filterReferrers`
  (`registry/remote/referrers.go`):

      var j int
      for i, x := range xs { if keep(x) { if i != j { xs[j] = x }; j++ } }
      return xs[:j]

  The slice is both read (`range` hands out `xs[i]` as it is when iteration `i` starts) and
  written (`xs[j]`, `j ≤ i`).  `writeAt` is where the kept element is written: `j` in the
  code; the seeded change C01/m9 wrote at `i - 1`.
-/
namespace Oras.Compact

/-- The loop from iteration `i` on; `arr` is the slice as it is now, `j` the write cursor. -/
def loop {α : Type} (keep : α → Bool) (writeAt : Nat → Nat → Nat) : Nat → Nat → Nat → List α → List α × Nat
  | 0, _, j, arr => (arr, j)
  | fuel + 1, i, j, arr =>
    match arr[i]? with
    | none => (arr, j)
    | some x =>
      if keep x then loop keep writeAt fuel (i + 1) (j + 1) (if i ≠ j then arr.set (writeAt i j) x else arr)
      else loop keep writeAt fuel (i + 1) j arr

/-- `xs[:j]` after the loop. -/
def compact {α : Type} (keep : α → Bool) (writeAt : Nat → Nat → Nat) (xs : List α) : List α :=
  let r := loop keep writeAt xs.length 0 0 xs
  r.1.take r.2

/-- the code: write at the cursor -/
def atCursor (_ j : Nat) : Nat := j
/-- C01/m9: write at `i - 1` -/
def atPrev (i _ : Nat) : Nat := i - 1

end Oras.Compact
