/-
  Model of the concurrency limiter of the copy functions (`internal/syncutil/limit.go`
  `LimitedRegion.Start` / `End` over one `semaphore.Weighted`, as used by `syncutil.Go`
  and by `copyGraph`'s `region.End()` … `region.Start()` around the dispatch of successors):
  any number of regions (one per task), any interleaving of `Start`, `End`, and of the
  operations a task performs while its region is started.
-/
namespace Oras

structure Region where
  ended : Bool          -- `lr.ended`
  busy : Bool           -- the task is inside a source read / destination operation
  deriving DecidableEq, Repr

structure PermitSt where
  limit : Nat
  avail : Nat           -- permits left in the semaphore
  regions : List Region

def PermitSt.init (limit : Nat) : PermitSt := ⟨limit, limit, []⟩

def holders (rs : List Region) : Nat := rs.countP (fun r => !r.ended)
def inFlight (rs : List Region) : Nat := rs.countP (fun r => r.busy)

inductive PermitStep : PermitSt → PermitSt → Prop
  /-- `LimitRegion(ctx, limiter)`: a new region, not holding a permit -/
  | spawn (s : PermitSt) : PermitStep s { s with regions := s.regions ++ [⟨true, false⟩] }
  /-- `Start()` on an ended region: `Acquire` succeeds when a permit is left -/
  | start (s : PermitSt) (i : Nat) (r : Region) (hi : s.regions[i]? = some r) (he : r.ended = true) (ha : 0 < s.avail) :
      PermitStep s { s with avail := s.avail - 1, regions := s.regions.set i { r with ended := false } }
  /-- `Start()` on a started region, `End()` on an ended one: no effect -/
  | noop (s : PermitSt) : PermitStep s s
  /-- `End()` on a started region that is not inside an operation: `Release` -/
  | end_ (s : PermitSt) (i : Nat) (r : Region) (hi : s.regions[i]? = some r) (he : r.ended = false) (hb : r.busy = false) :
      PermitStep s { s with avail := s.avail + 1, regions := s.regions.set i { r with ended := true } }
  /-- a source read or destination operation begins: only inside a started region -/
  | beginOp (s : PermitSt) (i : Nat) (r : Region) (hi : s.regions[i]? = some r) (he : r.ended = false) (hb : r.busy = false) :
      PermitStep s { s with regions := s.regions.set i { r with busy := true } }
  | endOp (s : PermitSt) (i : Nat) (r : Region) (hi : s.regions[i]? = some r) (hb : r.busy = true) :
      PermitStep s { s with regions := s.regions.set i { r with busy := false } }

inductive PermitReach (limit : Nat) : PermitSt → Prop
  | init : PermitReach limit (PermitSt.init limit)
  | step {s t : PermitSt} : PermitReach limit s → PermitStep s t → PermitReach limit t

end Oras
