/-
  Model of the listing loops (`registry/remote/repository.go` `Tags`/`tags`,
  `referrersByAPI`; `registry.go` `Repositories`), `parseLink` and `limitReader`
  (`utils.go`), and the OCI layout's `listTags` (`content/oci/readonlyoci.go`).
-/
import OrasModel.Model.Scopes
namespace Oras

/-- One HTTP exchange of a listing: the items of the page and whether a next link came. -/
structure PageResp (α : Type) where
  items : List α
  hasNext : Bool

inductive ListOutcome where | ok | callbackErr | linkErr | exhausted
  deriving DecidableEq, Repr

/-- The page loop: request the first URL (with `last`), then follow links; stop at the
    first response without a link, or when the callback fails (returning that failure).
    Records what the callback received and which requests carried a `last` parameter. -/
def pageLoop {α : Type} (cbFailsAt : Option Nat) :
    List (PageResp α) → Nat → List (List α) → List (List α) × ListOutcome
  | [], _, acc => (acc, .exhausted)
  | p :: rest, i, acc =>
    let acc' := acc ++ [p.items]
    if cbFailsAt = some i then (acc', .callbackErr)
    else if p.hasNext then pageLoop cbFailsAt rest (i + 1) acc' else (acc', .ok)

/-- `last` is sent on the first request only. -/
def lastParams (last : Str) (nRequests : Nat) : List Str :=
  (List.range nRequests).map fun i => if i = 0 then last else []

/-- `parseLink` (`utils.go:40-60`), before resolution against the request URL:
    the text between `<` and the first `>`. -/
inductive LinkErr where | noLink | missingOpen | missingClose
  deriving DecidableEq, Repr

def parseLink (link : Str) : Except LinkErr Str :=
  match link with
  | [] => .error .noLink
  | c :: rest =>
    if c ≠ '<' then .error .missingOpen
    else match splitFirst '>' rest with
      | some (u, _) => .ok u
      | none => .error .missingClose

/-- `limitReader`: at most `limit` bytes are ever taken from the body. -/
def limitRead {β : Type} (limit : Nat) (body : List β) : List β := body.take limit

/-- `listTags`: the tag names greater than `last`, ascending. -/
def listTags (tags : List Str) (last : Str) : List Str :=
  canon strLt (tags.filter fun t => last.isEmpty || strLt last t)

end Oras
