/-
  Model of `syncutil.Once.Do` (`internal/syncutil/once.go`), the single-flight used by the
  auth client's token cache (`registry/remote/auth/cache.go` `concurrentCache.Set`): a
  one-slot channel holds a token (`true` = nobody is fetching); the caller that takes it runs
  the fetch; a fetch that ends with the caller's context error puts the token back (hand-over),
  any other outcome is stored and the channel is closed, after which every caller reads the
  stored outcome.  Any number of callers, any interleaving.
-/
namespace Oras

inductive OncePC (R : Type) where
  | idle                       -- in the `select`
  | running                    -- inside `f`
  | done (first : Bool) (res : Option R)   -- returned: (first, result); `none` = its own context error
  deriving DecidableEq, Repr

structure OnceSt (R : Type) where
  token : Bool                 -- the channel holds `true`
  closed : Bool                -- the channel is closed
  result : Option R            -- o.result / o.err once stored
  pc : Nat → OncePC R

def OnceSt.init (R : Type) : OnceSt R := ⟨true, false, none, fun _ => .idle⟩

inductive OnceStep {R : Type} : OnceSt R → OnceSt R → Prop
  /-- `case inProgress := <-o.status` with the token -/
  | take (s : OnceSt R) (i : Nat) (hi : s.pc i = .idle) (ht : s.token = true) (hc : s.closed = false) :
      OnceStep s { s with token := false, pc := fun j => if j = i then .running else s.pc j }
  /-- `f` returned something other than the context's error: store, close, report first -/
  | finish (s : OnceSt R) (i : Nat) (r : R) (hi : s.pc i = .running) :
      OnceStep s { s with closed := true, result := some r, pc := fun j => if j = i then .done true (some r) else s.pc j }
  /-- `f` returned `context.Canceled` / `DeadlineExceeded`: the token goes back -/
  | handOver (s : OnceSt R) (i : Nat) (hi : s.pc i = .running) :
      OnceStep s { s with token := true, pc := fun j => if j = i then .done false none else s.pc j }
  /-- receive from the closed channel: the stored outcome -/
  | observe (s : OnceSt R) (i : Nat) (hi : s.pc i = .idle) (hc : s.closed = true) :
      OnceStep s { s with pc := fun j => if j = i then .done false s.result else s.pc j }
  /-- `case <-ctx.Done()` while waiting -/
  | giveUp (s : OnceSt R) (i : Nat) (hi : s.pc i = .idle) :
      OnceStep s { s with pc := fun j => if j = i then .done false none else s.pc j }

inductive OnceReach {R : Type} : OnceSt R → Prop
  | init : OnceReach (OnceSt.init R)
  | step {s t : OnceSt R} : OnceReach s → OnceStep s t → OnceReach t

end Oras
