/-
  C11, the archive side: where the operating system puts what `extractTarDirectory`
  (`content/file/utils.go`) creates, truncates and re-modes, when the unpack directory may
  hold symbolic links — ones it already held, or ones earlier entries created — that lead
  anywhere at all.

  The file system is reduced to the objects *inside* the unpack directory, by their lexical
  location (a list of components below it).  A link's destination is abstract: a location
  inside, or "outside".  `walk` is path resolution as `open(2)`, `stat(2)`, `chmod(2)` do it:
  links are followed in every position, the last one included.

  The extraction steps are those of the code: the name check (`resolveRelToBase`: no existing
  proper ancestor of the entry's path is a link), then — `dropLinks`, the repairs F24 / F25 —
  a link at the entry's own path is removed, then the object is created by name.  With
  `dropLinks = false` the model is the code before the repairs.

  Hard-link entries are not modelled: a hard link shares an inode, which locations cannot
  express (known finding F3b).  `os.Chtimes` is not modelled either: the property does not
  list times.
-/
namespace Oras.LinkFS

abbrev Path := List Nat

/-- Where a symbolic link leads, once the operating system has resolved it. -/
inductive Tgt where
  | inside (p : Path)
  | outside
  deriving DecidableEq, Repr

inductive Kind where
  | dir
  | file
  | sym (t : Tgt)
  deriving DecidableEq, Repr

/-- The objects inside the unpack directory, by lexical location. -/
abbrev FS := Path → Option Kind

def FS.set (fs : FS) (p : Path) (k : Option Kind) : FS := fun q => if q = p then k else fs q

def isLink : Option Kind → Bool
  | some (.sym _) => true
  | _ => false

/-- What a path resolves to: an object (or a free name in an existing directory) inside, at a
    lexical location; something outside; or an error (`ENOENT`, `ENOTDIR`, `ELOOP`). -/
inductive Loc where
  | at (p : Path)
  | outside
  | error
  deriving DecidableEq, Repr

/-- Path resolution from the unpack directory, following links in every position. -/
def walk (fs : FS) : Nat → Path → Path → Loc
  | 0, _, _ => .error
  | _ + 1, cur, [] => .at cur
  | fuel + 1, cur, s :: rest =>
    match fs (cur ++ [s]) with
    | some (.sym (.inside q)) => walk fs fuel [] (q ++ rest)
    | some (.sym .outside) => .outside
    | some .dir => walk fs fuel (cur ++ [s]) rest
    | some .file => if rest = [] then .at (cur ++ [s]) else .error
    | none => if rest = [] then .at (cur ++ [s]) else .error

/-- The kernel gives up after 40 links. -/
def fuelFor (p : Path) : Nat := p.length + 41

def resolve (fs : FS) (p : Path) : Loc := walk fs (fuelFor p) [] p

/-- No prefix of `p` (itself included) is a link. -/
def NoLinkOn (fs : FS) (p : Path) : Prop := ∀ k, k < p.length → isLink (fs (p.take (k + 1))) = false

/-- `resolveRelToBase`'s walk over `filepath.Dir(path)` and up: no existing proper ancestor
    is a link. -/
def ancestorsOk (fs : FS) (p : Path) : Bool :=
  (List.range (p.length - 1)).all (fun k => !isLink (fs (p.take (k + 1))))

/-- The repairs F24 / F25: a link at the entry's own path is removed (`os.Lstat`, `os.Remove`). -/
def dropLink (fs : FS) (p : Path) : FS := if isLink (fs p) then fs.set p none else fs

inductive Ent where
  | reg (p : Path)
  | dir (p : Path)
  | sym (p : Path) (t : Tgt)
  deriving DecidableEq, Repr

structure St where
  fs : FS
  touched : List Loc        -- what has been created, truncated, removed or re-moded so far

/-- `os.MkdirAll`, one prefix at a time: an existing directory (wherever the path leads) is
    accepted, a missing one is created, anything else is an error. -/
def mkdirStep (acc : Option (FS × List Loc)) (pre : Path) : Option (FS × List Loc) :=
  acc.bind fun (fs, tl) =>
    match resolve fs pre with
    | .at q =>
      match fs q with
      | none => some (fs.set q (some .dir), .at q :: tl)
      | some .dir => some (fs, tl)
      | _ => none
    | .outside => some (fs, tl)
    | .error => none

def prefixes (p : Path) : List Path := (List.range p.length).map (fun k => p.take (k + 1))

def mkdirAll (fs : FS) (p : Path) : Option (FS × List Loc) :=
  (prefixes p).foldl mkdirStep (some (fs, []))

/-- One entry.  `none`: the entry is refused or fails, the extraction stops. -/
def step (dropLinks preserve : Bool) (st : St) : Ent → Option St
  | .reg p =>
    if p = [] then none else
    if !ancestorsOk st.fs p then none else
    let fs1 := if dropLinks then dropLink st.fs p else st.fs
    let rm := if dropLinks ∧ isLink (st.fs p) then [Loc.at p] else []
    -- `os.OpenFile(path, O_WRONLY|O_CREATE|O_TRUNC)`, then (with the option) `os.Chmod(path)`:
    -- the same resolution twice
    match resolve fs1 p with
    | .at q =>
      if fs1 q = some .dir then none
      else some { fs := fs1.set q (some .file), touched := .at q :: rm ++ st.touched }
    | .outside => some { fs := fs1, touched := .outside :: rm ++ st.touched }
    | .error => none
  | .dir p =>
    if !ancestorsOk st.fs p then none else
    let fs1 := if dropLinks then dropLink st.fs p else st.fs
    let rm := if dropLinks ∧ isLink (st.fs p) then [Loc.at p] else []
    match mkdirAll fs1 p with
    | none => none
    | some (fs2, created) =>
      let chmod := if preserve then [resolve fs2 p] else []
      some { fs := fs2, touched := chmod ++ created ++ rm ++ st.touched }
  | .sym p t =>
    if p = [] then none else
    if !ancestorsOk st.fs p then none else
    -- `os.Symlink` (after `os.Remove` of what is there): neither follows the last component
    match resolve st.fs p.dropLast with
    | .at q =>
      let loc := q ++ [p.getLast?.getD 0]
      if st.fs q = some .dir ∨ q = [] then
        some { fs := st.fs.set loc (some (.sym t)), touched := .at loc :: st.touched }
      else none
    | .outside => some { fs := st.fs, touched := .outside :: st.touched }
    | .error => none

/-- A whole archive: entries in order, stopping at the first one that is refused or fails. -/
def run (dropLinks preserve : Bool) (st : St) : List Ent → St
  | [] => st
  | e :: es =>
    match step dropLinks preserve st e with
    | none => st
    | some st' => run dropLinks preserve st' es

end Oras.LinkFS
