/-
  Decision model of what `oras.Copy` does to the *root* node (`copy.go` `Copy`,
  `prepareCopy`, and the root's pass through `copyGraph` / `copyNode`): which of the wrapped
  hooks fire, in which order, and which call tags the root under the destination reference.
-/
namespace Oras

inductive RootEv where
  | exists_            -- dst.Exists(root)
  | userSkipped        -- the caller's OnCopySkipped
  | userPreCopy        -- the caller's PreCopy
  | push               -- dst.Push(root)
  | pushReference      -- dst.PushReference(root, dstRef): content and tag in one call
  | tag                -- dst.Tag(root, dstRef)
  | userPostCopy       -- the caller's PostCopy
  deriving DecidableEq, Repr

structure RootIn where
  refPusher : Bool     -- the destination is a registry.ReferencePusher
  present : Bool       -- the root is already in the destination
  deriving DecidableEq, Repr

/-- The root's events when every call succeeds and the caller's PreCopy does not skip. -/
def rootFlow (i : RootIn) : List RootEv :=
  if i.present then
    (if i.refPusher then [.exists_, .pushReference]          -- the caller's OnCopySkipped is not invoked
     else [.exists_, .userSkipped, .tag])
  else
    (if i.refPusher then [.exists_, .userPreCopy, .pushReference, .userPostCopy]   -- then SkipNode
     else [.exists_, .userPreCopy, .push, .tag, .userPostCopy])

/-- `if dstRef == "" { dstRef = srcRef }`. -/
def effectiveRef (srcRef dstRef : String) : String := if dstRef = "" then srcRef else dstRef

def RootEv.tags : RootEv → Bool
  | .tag | .pushReference => true
  | _ => false

end Oras
