/-
  Model of `applyReferrerChanges` / `removeEmptyDescriptors`
  (`registry/remote/referrers.go:147-225`).

  A descriptor is its key (`descriptor.FromOCI`; 0 = the empty descriptor) plus a payload
  standing for artifact type and annotations.  The Go code keeps a slice with tombstones
  and a key → position map; the model keeps the live entries in order — the two are related
  by the exhaustive differential run of C14.
-/
namespace Oras

structure RDesc where
  key : Nat          -- 0 = empty descriptor
  payload : Nat
  deriving DecidableEq, Repr

inductive RChange where
  | add (d : RDesc)
  | remove (d : RDesc)
  deriving DecidableEq, Repr

/-- first pass: drop empty entries and later duplicates -/
def dedupRefs : List RDesc → List RDesc → List RDesc
  | acc, [] => acc
  | acc, r :: rs =>
    if r.key = 0 ∨ acc.any (·.key = r.key) then dedupRefs acc rs else dedupRefs (acc ++ [r]) rs

def applyChange (cur : List RDesc) : RChange → List RDesc
  | .add d => if cur.any (·.key = d.key) then cur else cur ++ [d]
  | .remove d => cur.filter (·.key ≠ d.key)

/-- `applyReferrerChanges`; `none` = `errNoReferrerUpdate`. -/
def applyReferrerChanges (refs : List RDesc) (changes : List RChange) : Option (List RDesc) :=
  let base := dedupRefs [] refs
  let updateRequired := base.length ≠ refs.length          -- an empty entry or a duplicate was skipped
  let result := changes.foldl applyChange base
  if !updateRequired ∧ result.length = refs.length ∧ refs.all (fun r => result.any (·.key = r.key))
  then none else some result

end Oras
