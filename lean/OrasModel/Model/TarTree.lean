/-
  Model of how the file store turns a directory entry into a tar header
  (`content/file/utils.go` `tarDirectory`) and a tar header back into a file-system node
  (`extractTarDirectory`), on the fields the property is about.
-/
import OrasModel.Model.PathLex
namespace Oras

inductive NodeKind where
  | file (content : Nat)        -- content identity (bytes are carried verbatim by archive/tar)
  | dir
  | symlink (target : List Char)
  deriving DecidableEq, Repr

/-- What `os.Lstat` + `Readlink` + reading the file say about one entry. -/
structure FsNode where
  kind : NodeKind
  perm : Nat                    -- permission bits
  mtime : Nat
  atime : Nat
  uid : Nat
  gid : Nat
  deriving DecidableEq, Repr

inductive TypeFlag where | reg | dir | symlink | link | other
  deriving DecidableEq, Repr

structure TarHeader where
  name : List Seg               -- slash-separated elements of Name
  typeflag : TypeFlag
  mode : Nat
  linkname : List Char
  content : Nat
  modTime : Nat
  accessTime : Nat
  uid : Nat
  gid : Nat
  deriving DecidableEq, Repr

/-- `tarDirectory`'s walk callback for one entry at relative path `rel` under prefix `prefix`
    (`utils.go:45-107`): name = prefix/rel, ownership cleared, times cleared when
    `removeTimes`. -/
def mkHeader (removeTimes : Bool) (pfx rel : List Seg) (n : FsNode) : TarHeader :=
  { name := cleanSegs false (pfx ++ rel)
    typeflag := match n.kind with | .file _ => .reg | .dir => .dir | .symlink _ => .symlink
    mode := n.perm
    linkname := match n.kind with | .symlink t => t | _ => []
    content := match n.kind with | .file c => c | _ => 0
    modTime := if removeTimes then 0 else n.mtime
    accessTime := if removeTimes then 0 else n.atime
    uid := 0
    gid := 0 }

/-- The name check of extraction for a relative entry name (`resolveRelToBase` with a
    relative target): path relative to the directory name, rejected when it leaves it. -/
def resolveEntryName (dirName name : List Seg) : Option (List Seg) :=
  let rel := relSegs (cleanSegs false dirName) (cleanSegs false name)
  if rel.head? = some dotdot then none else some rel

/-- What `extractTarDirectory` creates for one header (`utils.go:160-226`): where, and which
    node.  `umask` is applied by the kernel unless permissions are preserved. -/
def extractEntry (preserve : Bool) (umask : Nat) (dirName : List Seg) (h : TarHeader) :
    Option (List Seg × NodeKind × Nat) :=
  match resolveEntryName dirName h.name with
  | none => none
  | some rel =>
    let perm := if preserve then h.mode else h.mode &&& (0o777 - (umask &&& 0o777))
    match h.typeflag with
    | .reg => some (rel, .file h.content, perm)
    | .dir => some (rel, .dir, perm)
    | .symlink => some (rel, .symlink h.linkname, 0)
    | .link => none          -- never produced by tarDirectory
    | .other => none

end Oras
