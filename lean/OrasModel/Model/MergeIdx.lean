/-
  `syncutil.Merge` composed with the referrers index it protects
  (`registry/remote/repository.go` `updateReferrersIndex`): the main of a batch reads the
  index of the subject in `prepare`, and in `resolve` applies the batch's changes to what it
  read (`applyReferrerChanges`), pushes the result and deletes the old index.  The registry
  keeps one index per subject; `idx` is its content, `snap` what the current main read.
  A failing `resolve` may or may not have replaced the index (the push can succeed and the
  delete of the old one fail).
-/
import OrasModel.Model.Merge
import OrasModel.Model.Referrers
namespace Oras

structure MI where
  m : MergeSt
  idx : List RDesc
  snap : List RDesc

/-- What the registry holds after a batch was applied to the index that was read:
    `errNoReferrerUpdate` leaves it alone. -/
def newIdx (read : List RDesc) (cs : List RChange) : List RDesc :=
  match applyReferrerChanges read cs with
  | some r => r
  | none => read

/-- Steps of the composed system; `chg i` is the change caller `i` submits. -/
inductive MIStep (chg : Nat → RChange) : MI → MI → Prop
  | assignOpen (x : MI) (i : Nat) (hi : x.m.pc i = .out) (hc : x.m.committed = false) :
      MIStep chg x { x with m := { x.m with items := x.m.items ++ [i], token := x.m.token || x.m.items.isEmpty,
                                            pc := fun j => if j = i then .waiting x.m.cur else x.m.pc j } }
  | assignPending (x : MI) (i : Nat) (hi : x.m.pc i = .out) (hc : x.m.committed = true) :
      MIStep chg x { x with m := { x.m with pending := x.m.pending ++ [i],
                                            pc := fun j => if j = i then .waiting (x.m.cur + 1) else x.m.pc j } }
  | takeMain (x : MI) (i : Nat) (hi : x.m.pc i = .waiting x.m.cur) (ht : x.m.token = true) :
      MIStep chg x { x with m := { x.m with token := false, pc := fun j => if j = i then .preparing x.m.cur else x.m.pc j } }
  /-- `prepare` read the index and succeeded -/
  | prepareOk (x : MI) (i : Nat) (hi : x.m.pc i = .preparing x.m.cur) :
      MIStep chg x { m := { x.m with committed := true, pc := fun j => if j = i then .resolving x.m.cur else x.m.pc j },
                     idx := x.idx, snap := x.idx }
  | prepareFail (x : MI) (i : Nat) (hi : x.m.pc i = .preparing x.m.cur) :
      MIStep chg x { x with m := x.m.complete false }
  /-- `resolve` applied the batch to what was read, pushed it, removed the old index -/
  | resolveOk (x : MI) (i : Nat) (hi : x.m.pc i = .resolving x.m.cur) :
      MIStep chg x { m := { x.m.complete true with resolved := (x.m.cur, x.m.items) :: x.m.resolved },
                     idx := newIdx x.snap (x.m.items.map chg), snap := x.snap }
  /-- `resolve` failed, before (`applied = false`) or after the new index was pushed -/
  | resolveFail (x : MI) (i : Nat) (applied : Bool) (hi : x.m.pc i = .resolving x.m.cur) :
      MIStep chg x { m := { x.m.complete false with resolved := (x.m.cur, x.m.items) :: x.m.resolved },
                     idx := if applied then newIdx x.snap (x.m.items.map chg) else x.idx, snap := x.snap }

inductive MIReach (chg : Nat → RChange) (idx0 : List RDesc) : MI → Prop
  | init : MIReach chg idx0 ⟨MergeSt.init, idx0, []⟩
  | step {x y : MI} : MIReach chg idx0 x → MIStep chg x y → MIReach chg idx0 y

end Oras
