/-
  Model of `auth.CleanScopes` / `cleanActions` (`registry/remote/auth/scope.go`).

  Two layers: the string-level function as written (fast path for one scope, verbatim
  handling of scopes without enough colons) — run by the driver against the real code —
  and the abstract canonical form of *well-formed* scope sets, about which the theorems of
  C16 are proved.
-/
import OrasModel.Model.Ref
namespace Oras

/-! ### generic: canonical (strictly sorted, duplicate-free) lists -/

def insertCanon {α : Type} [DecidableEq α] (lt : α → α → Bool) (x : α) : List α → List α
  | [] => [x]
  | y :: ys => if x = y then y :: ys else if lt x y then x :: y :: ys else y :: insertCanon lt x ys

/-- sort + de-duplicate -/
def canon {α : Type} [DecidableEq α] (lt : α → α → Bool) (l : List α) : List α :=
  l.foldr (insertCanon lt) []

/-- byte-wise lexicographic order on strings (`slices.Sort` on `[]string`) -/
def strLt : Str → Str → Bool
  | [], [] => false
  | [], _ :: _ => true
  | _ :: _, [] => false
  | a :: as, b :: bs => if a.toNat < b.toNat then true else if a = b then strLt as bs else false

/-! ### string level, as written -/

def splitOnChar (c : Char) : Str → List Str
  | [] => [[]]
  | x :: xs =>
    match splitOnChar c xs with
    | [] => [[]]
    | s :: rest => if x = c then [] :: s :: rest else (x :: s) :: rest

def joinWith (c : Char) : List Str → Str
  | [] => []
  | [s] => s
  | s :: rest => s ++ c :: joinWith c rest

def splitLast (c : Char) (s : Str) : Option (Str × Str) :=
  match splitFirst c s.reverse with
  | some (a, b) => some (b.reverse, a.reverse)
  | none => none

def star : Str := ['*']

/-- `cleanActions` (`scope.go:291-325`): the wildcard absorbs everything; otherwise the
    distinct non-empty actions in ascending order. -/
def cleanActions (as : List Str) : List Str :=
  if as.contains star then [star] else (canon strLt as).filter (· ≠ [])

/-- `CleanScopes` (`scope.go:198-289`). -/
def cleanScopes (scopes : List Str) : List Str :=
  match scopes with
  | [] => []
  | [scope] =>
    match splitLast ':' scope with
    | none => [scope]
    | some (before, acts) =>
      let al := cleanActions (splitOnChar ',' acts)
      if al.isEmpty then [] else [before ++ ':' :: joinWith ',' al]
  | _ =>
    -- verbatim scopes and (type, name, actions) triples
    let parsed : List (Sum Str (Str × Str × Str)) := scopes.filterMap fun scope =>
      match splitFirst ':' scope with
      | none => some (.inl scope)
      | some (t, rest) =>
        match splitLast ':' rest with
        | none => some (.inl scope)
        | some (name, acts) => if acts.isEmpty then none else some (.inr (t, name, acts))
    let verbatim := parsed.filterMap fun p => match p with | .inl s => some s | .inr _ => none
    let triples := parsed.filterMap fun p => match p with | .inr t => some t | .inl _ => none
    let keys := (triples.map fun t => (t.1, t.2.1)).eraseDups
    let merged := keys.filterMap fun k =>
      let acts := (triples.filter fun t => t.1 = k.1 ∧ t.2.1 = k.2).flatMap fun t =>
        (splitOnChar ',' t.2.2).filter (· ≠ [])
      if acts.isEmpty then none
      else
        let al := if acts.contains star then [star] else canon strLt acts
        some (k.1 ++ ':' :: k.2 ++ ':' :: joinWith ',' al)
    -- sort (duplicates among verbatim scopes are kept: observation O2)
    let all := verbatim ++ merged
    all.foldr (fun x acc =>
      let rec ins : List Str → List Str
        | [] => [x]
        | y :: ys => if strLt y x then y :: ins ys else x :: y :: ys
      ins acc) []

/-! ### abstract level: well-formed scope sets -/

/-- A granted permission: resource type, resource name, action. -/
abbrev Grant := Str × Str × Str

def grantLt (a b : Grant) : Bool :=
  if a.1 ≠ b.1 then strLt a.1 b.1 else if a.2.1 ≠ b.2.1 then strLt a.2.1 b.2.1 else strLt a.2.2 b.2.2

/-- Wildcard absorption: if `(t, n, *)` is granted, every other action on `(t, n)` is dropped. -/
def absorb (gs : List Grant) : List Grant :=
  gs.filter fun g => g.2.2 = star ∨ ¬ gs.contains (g.1, g.2.1, star)

/-- The canonical form of a scope set: absorbed, sorted, duplicate-free grants.  (The
    string `type:name:a1,a2` of the real function is the grouping of these by `(type, name)`.) -/
def cleanGrants (gs : List Grant) : List Grant := canon grantLt (absorb gs)

end Oras
