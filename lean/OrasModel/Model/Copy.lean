/-
  Per-node transition system of `copyGraph` (`copy.go:157-283`) with the shared tracker of
  `ExtendedCopyGraph`.  One node's life (the closure `fn`):

      idle --claim--> claimed            tracker.TryCommit succeeded
      claimed --existsT--> done          dst.Exists = true (+ OnCopySkipped ok): sub-DAG skipped
      claimed --existsF--> waiting       dst.Exists = false; successors found and dispatched
      waiting --ready--> copying         every successor's `done` channel is closed
      copying --push--> done             PreCopy, Fetch, Push (or Mount / PushReference), PostCopy
      copying --pushLate--> failed       content stored but an error is returned afterwards
      * --fail--> failed                 any error, callback failure, abort or cancellation

  Over-approximation (sound for safety): any idle node may be claimed at any time, and
  any unfinished node may fail at any time.  The destination is keyed by `dkey`
  (the node itself for key-addressed stores, the digest for the OCI layout / file store).
-/
import OrasModel.Model.Basic
namespace Oras

abbrev Node := Nat

inductive NSt where
  | idle | claimed | waiting | copying | done | failed
  deriving DecidableEq, Repr

structure CopyCfg where
  kids : Node → List Node      -- removeForeignLayers ∘ FindSuccessors
  dkey : Node → Nat            -- what the destination's `Exists` keys on
  roots : List Node

structure CopySt where
  st : Node → NSt
  dst : List Nat               -- keys present in the destination

inductive Label where
  | claim (n : Node) | existsT (n : Node) | existsF (n : Node) | ready (n : Node)
  | push (n : Node) | pushLate (n : Node) | fail (n : Node)
  deriving DecidableEq, Repr

def present (c : CopyCfg) (s : CopySt) (n : Node) : Bool := s.dst.contains (c.dkey n)

def CopySt.init (dst0 : List Nat) : CopySt := ⟨fun _ => .idle, dst0⟩

def step? (c : CopyCfg) (s : CopySt) : Label → Option CopySt
  | .claim n => if s.st n = .idle then some { s with st := fupd s.st n .claimed } else none
  | .existsT n =>
      if s.st n = .claimed ∧ present c s n = true then some { s with st := fupd s.st n .done } else none
  | .existsF n =>
      if s.st n = .claimed ∧ present c s n = false then some { s with st := fupd s.st n .waiting } else none
  | .ready n =>
      if s.st n = .waiting ∧ (c.kids n).all (fun k => decide (s.st k = .done)) = true
      then some { s with st := fupd s.st n .copying } else none
  | .push n =>
      if s.st n = .copying then some { st := fupd s.st n .done, dst := c.dkey n :: s.dst } else none
  | .pushLate n =>
      if s.st n = .copying then some { st := fupd s.st n .failed, dst := c.dkey n :: s.dst } else none
  | .fail n =>
      if s.st n = .claimed ∨ s.st n = .waiting ∨ s.st n = .copying
      then some { s with st := fupd s.st n .failed } else none

/-- Replay a trace; `none` if some label is not enabled. -/
def run? (c : CopyCfg) : CopySt → List Label → Option CopySt
  | s, [] => some s
  | s, l :: ls => match step? c s l with
    | some s' => run? c s' ls
    | none => none

/-- The call returns success exactly when every task finished without error: no node is
    failed or still in flight, and every root is done. -/
def retOk (c : CopyCfg) (s : CopySt) (univ : List Node) : Bool :=
  c.roots.all (fun r => decide (s.st r = .done)) &&
  univ.all (fun n => decide (s.st n = .idle ∨ s.st n = .done))

/-- Nodes reachable from the roots through `kids`. -/
inductive Reachable (c : CopyCfg) : Node → Prop
  | root {r : Node} : r ∈ c.roots → Reachable c r
  | kid {n k : Node} : Reachable c n → k ∈ c.kids n → Reachable c k

/-- Executable reachability with fuel (driver / spec oracle). -/
def reachList (c : CopyCfg) : Nat → List Node → List Node → List Node
  | 0, _, acc => acc
  | _ + 1, [], acc => acc
  | fuel + 1, n :: rest, acc =>
    if acc.contains n then reachList c fuel rest acc
    else reachList c fuel (c.kids n ++ rest) (n :: acc)

end Oras
