/-
  C14: the detected Referrers API capability of a `Repository` (`registry/remote/repository.go`,
  `SetReferrersCapability`, `loadReferrersState`): one atomic cell that is written only by a
  compare-and-swap from "unknown".
-/
namespace Oras.Capability

inductive State where | unknown | supported | unsupported
  deriving DecidableEq, Repr

def ofBool (capable : Bool) : State := if capable then .supported else .unsupported

/-- `SetReferrersCapability(capable)`: the new state and whether
    `ErrReferrersCapabilityAlreadySet` is returned.  The compare-and-swap and the load that
    follows it are atomic steps of their own; the cell may change between them only from
    "unknown", which the swap has just ruled out, so the pair acts as one step. -/
def setCap (s : State) (capable : Bool) : State × Bool :=
  match s with
  | .unknown => (ofBool capable, false)
  | s => (s, s ≠ ofBool capable)

/-- Any interleaving of callers (explicit calls, pings, pushes that see an `OCI-Subject`
    header) is a sequence of `set`s on the cell. -/
def run (s : State) (calls : List Bool) : State := calls.foldl (fun s c => (setCap s c).1) s

end Oras.Capability
