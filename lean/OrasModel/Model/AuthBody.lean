/-
  The auth client's request flow (`Model/Auth.lean`) with the request body made explicit:
  what the registry receives as the body of each send of one `Client.Do`
  (`registry/remote/auth/client.go`: `rewindRequestBody` before the cached-token retry and
  before the final send).  Body kinds and `Recv` are those of `Model/Retry.lean`.
-/
import OrasModel.Model.Auth
import OrasModel.Model.Retry
namespace Oras

/-- `rewindRequestBody` succeeds unless the body is one-shot (`GetBody` is nil). -/
def canRewind (b : BodyKind) : Bool :=
  match b with
  | .oneshot => false
  | _ => true

/-- Body of the first send. -/
def recvFirst (b : BodyKind) : Recv :=
  match b with
  | .none => .none
  | _ => .full

/-- Body of a later send, made after a successful rewind. -/
def recvAgain (b : BodyKind) : Recv :=
  match b with
  | .none => .none
  | .replay => .full
  | .oneshot => .truncated     -- unreachable: a one-shot body is never rewound (`canRewind`)

/-- `Client.Do` with a body: every emitted request with the body the receiver gets, and
    the cache afterwards.  A send after the first one happens only if the body could be
    rewound; otherwise `Do` returns the rewind error at that point (a token fetched or
    computed before that point is already in the cache). -/
def authFlowB (c : ACache) (i : DoIn) (body : BodyKind) : List (Out × Recv) × ACache :=
  let h := i.host
  let first := firstAttempt c i
  let send1 : Out × Recv := (⟨h, first.1, .registry⟩, recvFirst body)
  let again (o : Out) : List (Out × Recv) := if canRewind body then [(o, recvAgain body)] else []
  match i.r1 with
  | .final => ([send1], c)
  | .unknown => ([send1], c)
  | .basic =>
    if i.cred.hasPw then
      (send1 :: again ⟨h, some (.pw h), .registry⟩, c.set h .basic 0 (.pw h))
    else ([send1], c)
  | .bearer realm key =>
    let retry := retryAttempt c i first.2 key
    if !retry.1.isEmpty && !canRewind body then ([send1], c)   -- rewind before the cached-token retry fails
    else
      let retryB := retry.1.map (fun o => (o, recvAgain body))
      if retry.2 then (send1 :: retryB, c)
      else if i.cred.hasAt then
        (send1 :: retryB ++ again ⟨h, some (.at_ h), .registry⟩, c.set h .bearer key (.at_ h))
      else
        let fetch : Out × Recv := (⟨realm, carriedSecret i, .tokenFetch⟩, .none)
        match i.fetchOk with
        | none => (send1 :: retryB ++ [fetch], c)
        | some id =>
          (send1 :: retryB ++ [fetch] ++ again ⟨h, some (.tok h id), .registry⟩, c.set h .bearer key (.tok h id))

end Oras
