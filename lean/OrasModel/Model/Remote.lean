/-
  Model of `registry/remote/repository.go` (C13): the Repository / blobStore /
  manifestStore calls as request–response exchanges with a registry, the checks made on
  each response (`generateDescriptor`, `generateBlobDescriptor`, `verifyContentDigest`,
  the Content-Length and Content-Type comparisons of `Fetch`), and a reference registry
  following the distribution specification, parameterised by a capability profile.

  Content is abstract: `cx.H b` is the digest of body `b`, `cx.len b` its length and
  `cx.subj b` the subject a manifest body names (content-determined).  Requests that
  maintain the referrers tag schema (the ping, and reads/writes of `sha256-…` index tags)
  belong to C14 and are not part of this model; only their effect on `referrersState` is.
-/
import OrasModel.Model.Basic
namespace Oras.Remote

/-! ### association lists -/

def alookup {κ ν : Type} [DecidableEq κ] (l : List (κ × ν)) (k : κ) : Option ν :=
  match l with
  | [] => none
  | (k', v) :: rest => if k' = k then some v else alookup rest k

def adel {κ ν : Type} [DecidableEq κ] (l : List (κ × ν)) (k : κ) : List (κ × ν) :=
  l.filter (fun p => p.1 ≠ k)

def aset {κ ν : Type} [DecidableEq κ] (l : List (κ × ν)) (k : κ) (v : ν) : List (κ × ν) :=
  (k, v) :: adel l k

/-! ### content, descriptors, profile -/

structure Ctx (Body Dig : Type) where
  H : Body → Dig
  len : Body → Nat
  subj : Body → Option Dig

structure Prof where
  api : Bool      -- Referrers API
  dh : Bool       -- Docker-Content-Digest on blob and manifest responses
  rg : Bool       -- range requests
  mt : Bool       -- cross-repository mount
  deriving Repr, DecidableEq

structure Desc (Dig : Type) where
  mt : String
  dig : Dig
  size : Nat
  deriving Repr, DecidableEq

def octet : String := "application/octet-stream"

/-- Media types routed to the manifests endpoint when `ManifestMediaTypes` is empty
    (`manifest.go:27-33`); the extractor regenerates `Gen.Facts.manifestTypes`-like data,
    the driver passes the effective list. -/
def isManifest (manifestTypes : List String) (mt : String) : Bool := manifestTypes.contains mt

/-- The three types for which push/delete index referrers client side. -/
def ociIndexed (mt : String) : Bool :=
  mt = "application/vnd.oci.artifact.manifest.v1+json" ||
  mt = "application/vnd.oci.image.manifest.v1+json" ||
  mt = "application/vnd.oci.image.index.v1+json"

/-! ### requests and responses -/

inductive Ref (Dig : Type) where
  | tag (t : String)
  | dig (d : Dig)
  deriving Repr, DecidableEq

inductive Req (Body Dig : Type) where
  | headBlob (repo : String) (d : Dig)
  | getBlob (repo : String) (d : Dig)
  | deleteBlob (repo : String) (d : Dig)
  | postUpload (repo : String)
  | postMount (repo : String) (d : Dig) (src : String)
  | putUpload (repo : String) (session : Nat) (d : Dig) (clen : Nat) (body : Body)
  | headMan (repo : String) (r : Ref Dig)
  | getMan (repo : String) (r : Ref Dig)
  | putMan (repo : String) (r : Ref Dig) (ctype : String) (clen : Nat) (body : Body)
  | deleteMan (repo : String) (d : Dig)

inductive Dcd (Dig : Type) where
  | absent
  | invalid
  | valid (d : Dig)
  deriving Repr, DecidableEq

structure Resp (Body Dig : Type) where
  status : Nat
  ctype : Option String := none     -- `none`: absent or unparsable Content-Type
  clen : Option Nat := none         -- `none`: unknown (-1)
  dcd : Dcd Dig := .absent
  ranges : Bool := false
  body : Option Body := none
  location : Option Nat := none     -- upload session
  ociSubject : Bool := false

/-- A single-field change of an otherwise valid response. -/
inductive Corrupt (Dig : Type) where
  | dcd (d : Dcd Dig)
  | clen (n : Option Nat)
  | ctype (c : Option String)
  deriving Repr, DecidableEq

def applyCorrupt {Body Dig : Type} (c : Option (Corrupt Dig)) (r : Resp Body Dig) : Resp Body Dig :=
  match c with
  | none => r
  | some (.dcd d) => { r with dcd := d }
  | some (.clen n) => { r with clen := n }
  | some (.ctype t) => { r with ctype := t }

/-! ### the reference registry -/

structure RepoSt (Body Dig : Type) where
  blobs : List (Dig × Body) := []
  mans : List (Dig × (String × Body)) := []
  tags : List (String × Dig) := []
  uploads : List Nat := []

structure Reg (Body Dig : Type) where
  repos : String → RepoSt Body Dig
  next : Nat

def Reg.empty {Body Dig : Type} : Reg Body Dig := ⟨fun _ => {}, 0⟩

def Reg.set {Body Dig : Type} (g : Reg Body Dig) (name : String) (r : RepoSt Body Dig) : Reg Body Dig :=
  { g with repos := fun n => if n = name then r else g.repos n }

section
variable {Body Dig : Type} [DecidableEq Dig]

def resolveRef (r : RepoSt Body Dig) : Ref Dig → Option Dig
  | .dig d => some d
  | .tag t => alookup r.tags t

def manResp (cx : Ctx Body Dig) (p : Prof) (d : Dig) (mt : String) (b : Body) (withBody : Bool) :
    Resp Body Dig :=
  { status := 200, ctype := some mt, clen := some (cx.len b),
    dcd := if p.dh then .valid d else .absent, body := if withBody then some b else none }

def serve (cx : Ctx Body Dig) (p : Prof) (g : Reg Body Dig) : Req Body Dig → Reg Body Dig × Resp Body Dig
  | .headBlob repo d =>
    match alookup (g.repos repo).blobs d with
    | none => (g, { status := 404 })
    | some b => (g, { status := 200, ctype := some octet, clen := some (cx.len b),
                      dcd := if p.dh then .valid d else .absent, ranges := p.rg })
  | .getBlob repo d =>
    match alookup (g.repos repo).blobs d with
    | none => (g, { status := 404 })
    | some b => (g, { status := 200, ctype := some octet, clen := some (cx.len b),
                      dcd := if p.dh then .valid d else .absent, ranges := p.rg, body := some b })
  | .deleteBlob repo d =>
    let r := g.repos repo
    match alookup r.blobs d with
    | none => (g, { status := 404 })
    | some _ => (g.set repo { r with blobs := adel r.blobs d }, { status := 202 })
  | .postUpload repo =>
    let r := g.repos repo
    ({ (g.set repo { r with uploads := g.next :: r.uploads }) with next := g.next + 1 },
     { status := 202, location := some g.next })
  | .postMount repo d src =>
    let r := g.repos repo
    match (if p.mt then alookup (g.repos src).blobs d else none) with
    | some b => (g.set repo { r with blobs := aset r.blobs d b }, { status := 201 })
    | none =>
      ({ (g.set repo { r with uploads := g.next :: r.uploads }) with next := g.next + 1 },
       { status := 202, location := some g.next })
  | .putUpload repo session d _ body =>
    let r := g.repos repo
    if ¬ r.uploads.contains session then (g, { status := 404 })
    else if cx.H body ≠ d then (g, { status := 400 })
    else (g.set repo { r with blobs := aset r.blobs d body, uploads := r.uploads.erase session },
          { status := 201 })
  | .headMan repo ref =>
    let r := g.repos repo
    match (resolveRef r ref).bind (fun d => (alookup r.mans d).map (fun m => (d, m))) with
    | none => (g, { status := 404 })
    | some (d, (mt, b)) => (g, manResp cx p d mt b false)
  | .getMan repo ref =>
    let r := g.repos repo
    match (resolveRef r ref).bind (fun d => (alookup r.mans d).map (fun m => (d, m))) with
    | none => (g, { status := 404 })
    | some (d, (mt, b)) => (g, manResp cx p d mt b true)
  | .putMan repo ref ctype _ body =>
    let r := g.repos repo
    let d := cx.H body
    match ref with
    | .dig d' =>
      if d' ≠ d then (g, { status := 400 })
      else (g.set repo { r with mans := aset r.mans d (ctype, body) },
            { status := 201, dcd := if p.dh then .valid d else .absent,
              ociSubject := p.api && (cx.subj body).isSome })
    | .tag t =>
      (g.set repo { r with mans := aset r.mans d (ctype, body), tags := aset r.tags t d },
       { status := 201, dcd := if p.dh then .valid d else .absent,
         ociSubject := p.api && (cx.subj body).isSome })
  | .deleteMan repo d =>
    let r := g.repos repo
    match alookup r.mans d with
    | none => (g, { status := 404 })
    | some _ => (g.set repo { r with mans := adel r.mans d, tags := r.tags.filter (fun p => p.2 ≠ d) },
                 { status := 202 })

/-! ### the checks the client makes on a response -/

inductive RErr where
  | notFound
  | server              -- unexpected status
  | badContentType
  | unknownLength
  | badDigestHeader
  | missingDigestHeader
  | digestMismatch
  | lengthMismatch
  | mediaTypeMismatch
  | contentMismatch     -- caller's content does not match the descriptor (no request sent)
  | sourceBlob          -- Mount: cannot read source blob
  deriving Repr, DecidableEq

/-- `verifyContentDigest` (`repository.go:1635-1661`). -/
def verifyContentDigest (r : Resp Body Dig) (expected : Dig) : Except RErr Unit :=
  match r.dcd with
  | .absent => .ok ()
  | .invalid => .error .badDigestHeader
  | .valid d => if d = expected then .ok () else .error .digestMismatch

/-- `generateBlobDescriptor` (`repository.go:1035-1055`). -/
def genBlobDesc (r : Resp Body Dig) (refDigest : Dig) : Except RErr (Desc Dig) :=
  let mt := match r.ctype with
    | some m => if m = "" then octet else m
    | none => octet
  match r.clen with
  | none => .error .unknownLength
  | some n =>
    match verifyContentDigest r refDigest with
    | .error e => .error e
    | .ok _ => .ok ⟨mt, refDigest, n⟩

/-- `manifestStore.generateDescriptor` (`repository.go:1530-1612`). -/
def genManifestDesc (cx : Ctx Body Dig) (isHead : Bool) (refDigest : Option Dig) (r : Resp Body Dig) :
    Except RErr (Desc Dig) :=
  match r.ctype with
  | none => .error .badContentType
  | some mt =>
    match r.clen with
    | none => .error .unknownLength
    | some n =>
      let content : Except RErr Dig :=
        match r.dcd with
        | .invalid => .error .badDigestHeader
        | .valid h => .ok h
        | .absent =>
          if isHead then
            match refDigest with
            | none => .error .missingDigestHeader
            | some d => .ok d
          else
            match r.body with
            | some b => .ok (cx.H b)
            | none => .error .server
      match content with
      | .error e => .error e
      | .ok c =>
        match refDigest with
        | some d => if d = c then .ok ⟨mt, c, n⟩ else .error .digestMismatch
        | none => .ok ⟨mt, c, n⟩

/-- The 200 branch of `blobStore.Fetch` (`repository.go:741-757`). -/
def blobFetchCheck (target : Desc Dig) (r : Resp Body Dig) : Except RErr Unit :=
  match r.clen with
  | some n => if n ≠ target.size then .error .lengthMismatch else verifyContentDigest r target.dig
  | none => verifyContentDigest r target.dig

/-- The 200 branch of `manifestStore.Fetch` (`repository.go:1092-1105`). -/
def manFetchCheck (target : Desc Dig) (r : Resp Body Dig) : Except RErr Unit :=
  match r.ctype with
  | none => .error .badContentType
  | some mt =>
    if mt ≠ target.mt then .error .mediaTypeMismatch
    else match r.clen with
      | some n => if n ≠ target.size then .error .lengthMismatch else verifyContentDigest r target.dig
      | none => verifyContentDigest r target.dig

/-! ### client calls -/

inductive RState where
  | unknown | supported | unsupported
  deriving Repr, DecidableEq

inductive Res (Body Dig : Type) where
  | ok
  | body (b : Body) (seekable : Bool)
  | desc (d : Desc Dig)
  | descBody (d : Desc Dig) (b : Body) (seekable : Bool)
  | bool (b : Bool)
  | err (e : RErr)

/-- What one call does: the registry afterwards, the client's referrers state afterwards,
    the result, and the requests sent (in order). -/
structure Out (Body Dig : Type) where
  reg : Reg Body Dig
  rs : RState
  res : Res Body Dig
  trace : List (Req Body Dig)

/-- Outcome of the referrers ping, as far as this model goes: it settles the state. -/
def pinged (p : Prof) : RState → RState
  | .unknown => if p.api then .supported else .unsupported
  | s => s

def statusErr (r : Resp Body Dig) : RErr := if r.status = 404 then .notFound else .server

/-- `blobStore.Push` + `completePushAfterInitialPost`.  `blen` is the length of the
    reader's content (a `bytes.Reader`, whose length the client knows). -/
def pushBlob (cx : Ctx Body Dig) (p : Prof) (g : Reg Body Dig) (rs : RState) (repo : String)
    (d : Desc Dig) (b : Body) : Out Body Dig :=
  let q1 := Req.postUpload repo
  let (g1, r1) := serve cx p g q1
  if r1.status ≠ 202 then ⟨g1, rs, .err .server, [q1]⟩
  else match r1.location with
    | none => ⟨g1, rs, .err .server, [q1]⟩
    | some s =>
      if cx.len b ≠ d.size then ⟨g1, rs, .err .contentMismatch, [q1]⟩
      else
        let q2 := Req.putUpload repo s d.dig d.size b
        let (g2, r2) := serve cx p g1 q2
        ⟨g2, rs, if r2.status = 201 then .ok else .err .server, [q1, q2]⟩

/-- `manifestStore.push` (`repository.go:1289-1340`). -/
def putManifest (cx : Ctx Body Dig) (p : Prof) (g : Reg Body Dig) (rs : RState) (repo : String)
    (d : Desc Dig) (b : Body) (ref : Ref Dig) (knownLen : Bool) : Out Body Dig :=
  if knownLen && cx.len b ≠ d.size then ⟨g, rs, .err .contentMismatch, []⟩
  else
    let q := Req.putMan repo ref d.mt d.size b
    let (g1, r) := serve cx p g q
    if r.status ≠ 201 then ⟨g1, rs, .err .server, [q]⟩
    else
      let rs1 := if r.ociSubject && rs = .unknown then .supported else rs
      match verifyContentDigest r d.dig with
      | .error e => ⟨g1, rs1, .err e, [q]⟩
      | .ok _ => ⟨g1, rs1, .ok, [q]⟩

/-- `manifestStore.pushWithIndexing`: `Push` (ref = the digest) and `PushReference`. -/
def pushManifest (cx : Ctx Body Dig) (p : Prof) (g : Reg Body Dig) (rs : RState) (repo : String)
    (d : Desc Dig) (b : Body) (ref : Ref Dig) : Out Body Dig :=
  if ociIndexed d.mt && rs ≠ .supported then
    -- content.ReadAll(r, expected): size and digest are verified before anything is sent
    if cx.len b ≠ d.size ∨ cx.H b ≠ d.dig then ⟨g, rs, .err .contentMismatch, []⟩
    else
      let o := putManifest cx p g rs repo d b ref true
      match o.res with
      | .ok =>
        if o.rs = .supported then o
        else if (cx.subj b).isSome then { o with rs := pinged p o.rs }
        else o
      | _ => o
  else putManifest cx p g rs repo d b ref true

/-- `blobStore.Fetch`. -/
def fetchBlob (cx : Ctx Body Dig) (p : Prof) (c : Option (Corrupt Dig)) (g : Reg Body Dig) (rs : RState)
    (repo : String) (t : Desc Dig) : Out Body Dig :=
  let q := Req.getBlob repo t.dig
  let (g1, r0) := serve cx p g q
  let r := applyCorrupt c r0
  if r.status = 200 then
    match blobFetchCheck t r, r.body with
    | .error e, _ => ⟨g1, rs, .err e, [q]⟩
    | .ok _, some b => ⟨g1, rs, .body b r.ranges, [q]⟩
    | .ok _, none => ⟨g1, rs, .err .server, [q]⟩
  else ⟨g1, rs, .err (statusErr r), [q]⟩

/-- `manifestStore.Fetch`. -/
def fetchManifest (cx : Ctx Body Dig) (p : Prof) (c : Option (Corrupt Dig)) (g : Reg Body Dig) (rs : RState)
    (repo : String) (t : Desc Dig) : Out Body Dig :=
  let q := Req.getMan repo (.dig t.dig)
  let (g1, r0) := serve cx p g q
  let r := applyCorrupt c r0
  if r.status = 200 then
    match manFetchCheck t r, r.body with
    | .error e, _ => ⟨g1, rs, .err e, [q]⟩
    | .ok _, some b => ⟨g1, rs, .body b false, [q]⟩
    | .ok _, none => ⟨g1, rs, .err .server, [q]⟩
  else ⟨g1, rs, .err (statusErr r), [q]⟩

def refDigest? : Ref Dig → Option Dig
  | .dig d => some d
  | .tag _ => none

/-- `manifestStore.Resolve`. -/
def resolveManifest (cx : Ctx Body Dig) (p : Prof) (c : Option (Corrupt Dig)) (g : Reg Body Dig) (rs : RState)
    (repo : String) (ref : Ref Dig) : Out Body Dig :=
  let q := Req.headMan repo ref
  let (g1, r0) := serve cx p g q
  let r := applyCorrupt c r0
  if r.status = 200 then
    match genManifestDesc cx true (refDigest? ref) r with
    | .error e => ⟨g1, rs, .err e, [q]⟩
    | .ok d => ⟨g1, rs, .desc d, [q]⟩
  else ⟨g1, rs, .err (statusErr r), [q]⟩

/-- `blobStore.Resolve` (the reference must be a digest). -/
def resolveBlob (cx : Ctx Body Dig) (p : Prof) (c : Option (Corrupt Dig)) (g : Reg Body Dig) (rs : RState)
    (repo : String) (d : Dig) : Out Body Dig :=
  let q := Req.headBlob repo d
  let (g1, r0) := serve cx p g q
  let r := applyCorrupt c r0
  if r.status = 200 then
    match genBlobDesc r d with
    | .error e => ⟨g1, rs, .err e, [q]⟩
    | .ok ds => ⟨g1, rs, .desc ds, [q]⟩
  else ⟨g1, rs, .err (statusErr r), [q]⟩

/-- `Exists` of either store: `Resolve` of the digest, not-found mapped to `false`. -/
def existsOf (o : Out Body Dig) : Out Body Dig :=
  match o.res with
  | .desc _ => { o with res := .bool true }
  | .err .notFound => { o with res := .bool false }
  | _ => o

/-- `manifestStore.FetchReference`: GET, the descriptor from the response; when the
    length is unknown a `Resolve` (HEAD) supplies the descriptor. -/
def fetchRefManifest (cx : Ctx Body Dig) (p : Prof) (c : Option (Corrupt Dig)) (g : Reg Body Dig) (rs : RState)
    (repo : String) (ref : Ref Dig) : Out Body Dig :=
  let q := Req.getMan repo ref
  let (g1, r0) := serve cx p g q
  let r := applyCorrupt c r0
  if r.status = 200 then
    match r.body with
    | none => ⟨g1, rs, .err .server, [q]⟩
    | some b =>
      match r.clen with
      | none =>
        let o := resolveManifest cx p none g1 rs repo ref
        match o.res with
        | .desc d => { o with res := .descBody d b false, trace := q :: o.trace }
        | _ => { o with trace := q :: o.trace }
      | some _ =>
        match genManifestDesc cx false (refDigest? ref) r with
        | .error e => ⟨g1, rs, .err e, [q]⟩
        | .ok d => ⟨g1, rs, .descBody d b false, [q]⟩
  else ⟨g1, rs, .err (statusErr r), [q]⟩

/-- `blobStore.FetchReference`. -/
def fetchRefBlob (cx : Ctx Body Dig) (p : Prof) (c : Option (Corrupt Dig)) (g : Reg Body Dig) (rs : RState)
    (repo : String) (dg : Dig) : Out Body Dig :=
  let q := Req.getBlob repo dg
  let (g1, r0) := serve cx p g q
  let r := applyCorrupt c r0
  if r.status = 200 then
    match r.body with
    | none => ⟨g1, rs, .err .server, [q]⟩
    | some b =>
      match r.clen with
      | none =>
        let o := resolveBlob cx p none g1 rs repo dg
        match o.res with
        | .desc d => { o with res := .descBody d b r.ranges, trace := q :: o.trace }
        | _ => { o with trace := q :: o.trace }
      | some _ =>
        match genBlobDesc r dg with
        | .error e => ⟨g1, rs, .err e, [q]⟩
        | .ok d => ⟨g1, rs, .descBody d b r.ranges, [q]⟩
  else ⟨g1, rs, .err (statusErr r), [q]⟩

/-- `manifestStore.Tag`: `Fetch(desc)` then `push` of the fetched stream under the tag
    (the stream's length is not known to the client; `ContentLength` is set from `desc`). -/
def tagManifest (cx : Ctx Body Dig) (p : Prof) (c : Option (Corrupt Dig)) (g : Reg Body Dig) (rs : RState)
    (repo : String) (d : Desc Dig) (t : String) : Out Body Dig :=
  let o := fetchManifest cx p c g rs repo d
  match o.res with
  | .body b _ =>
    -- the stream is not a built-in reader, so with the (default) auth client the manifest is
    -- first buffered through a verifying memory store (`push`, "prevent double reading"):
    -- a descriptor the bytes do not match fails here, before any PUT
    if cx.len b ≠ d.size ∨ cx.H b ≠ d.dig then { o with res := .err .contentMismatch }
    else
      let o2 := putManifest cx p o.reg o.rs repo d b (.tag t) false
      { o2 with trace := o.trace ++ o2.trace }
  | _ => o

/-- `Repository.delete`. -/
def deleteRaw (cx : Ctx Body Dig) (p : Prof) (c : Option (Corrupt Dig)) (g : Reg Body Dig) (rs : RState)
    (repo : String) (t : Desc Dig) (isMan : Bool) : Out Body Dig :=
  let q := if isMan then Req.deleteMan repo t.dig else Req.deleteBlob repo t.dig
  let (g1, r0) := serve cx p g q
  let r := applyCorrupt c r0
  if r.status = 202 then
    match verifyContentDigest r t.dig with
    | .error e => ⟨g1, rs, .err e, [q]⟩
    | .ok _ => ⟨g1, rs, .ok, [q]⟩
  else ⟨g1, rs, .err (statusErr r), [q]⟩

/-- `manifestStore.deleteWithIndexing`.  `FetchAll` verifies what it reads against the
    descriptor (`content.ReadAll`). -/
def deleteManifest (cx : Ctx Body Dig) (p : Prof) (c : Option (Corrupt Dig)) (g : Reg Body Dig) (rs : RState)
    (repo : String) (t : Desc Dig) : Out Body Dig :=
  if ociIndexed t.mt && rs ≠ .supported then
    let o := fetchManifest cx p c g rs repo t
    match o.res with
    | .body b _ =>
      if cx.len b ≠ t.size ∨ cx.H b ≠ t.dig then { o with res := .err .contentMismatch }
      else
        let rs1 := if (cx.subj b).isSome then pinged p o.rs else o.rs
        let o2 := deleteRaw cx p none o.reg rs1 repo t true
        { o2 with trace := o.trace ++ o2.trace }
    | _ => o
  else deleteRaw cx p c g rs repo t true

/-- `blobStore.Mount` with `getContent = nil`. -/
def mountBlob (cx : Ctx Body Dig) (p : Prof) (g : Reg Body Dig) (rs : RState)
    (repo : String) (d : Desc Dig) (src : String) : Out Body Dig :=
  let q1 := Req.postMount repo d.dig src
  let (g1, r1) := serve cx p g q1
  if r1.status = 201 then
    match verifyContentDigest r1 d.dig with
    | .error e => ⟨g1, rs, .err e, [q1]⟩
    | .ok _ => ⟨g1, rs, .ok, [q1]⟩
  else if r1.status ≠ 202 then ⟨g1, rs, .err .server, [q1]⟩
  else
    let o := fetchBlob cx p none g1 rs src d
    match o.res, r1.location with
    | .body b _, some s =>
      let q3 := Req.putUpload repo s d.dig d.size b
      let (g3, r3) := serve cx p o.reg q3
      ⟨g3, rs, if r3.status = 201 then .ok else .err .server, q1 :: o.trace ++ [q3]⟩
    | _, _ =>
      -- "cannot read source blob: %w": the cause (not-found included) stays visible to errors.Is
      ⟨o.reg, rs, (match o.res with | .err e => .err e | _ => .err .sourceBlob), q1 :: o.trace⟩

/-- Does a one-field change of a truthful 200 response contradict what the call asked for:
    a digest header against a requested digest, a length against a requested size, a media
    type against a requested manifest media type? -/
def contradicts (c : Corrupt Dig) (wantDig : Option Dig) (wantSize : Option Nat) (wantMt : Option String) : Bool :=
  match c with
  | .dcd .absent => false
  | .dcd .invalid => wantDig.isSome
  | .dcd (.valid d) => match wantDig with | some w => d ≠ w | none => false
  | .clen none => false
  | .clen (some n) => match wantSize with | some w => n ≠ w | none => false
  | .ctype none => wantMt.isSome
  | .ctype (some t) => match wantMt with | some w => t ≠ w | none => false

/-- `Repository.Fetch` / `Push` / `Exists` / `Delete`: routed by media type alone. -/
def repoFetch (cx : Ctx Body Dig) (mts : List String) (p : Prof) (c : Option (Corrupt Dig)) (g : Reg Body Dig)
    (rs : RState) (repo : String) (t : Desc Dig) : Out Body Dig :=
  if isManifest mts t.mt then fetchManifest cx p c g rs repo t else fetchBlob cx p c g rs repo t

def repoPush (cx : Ctx Body Dig) (mts : List String) (p : Prof) (g : Reg Body Dig)
    (rs : RState) (repo : String) (d : Desc Dig) (b : Body) : Out Body Dig :=
  if isManifest mts d.mt then pushManifest cx p g rs repo d b (.dig d.dig) else pushBlob cx p g rs repo d b

def repoExists (cx : Ctx Body Dig) (mts : List String) (p : Prof) (c : Option (Corrupt Dig)) (g : Reg Body Dig)
    (rs : RState) (repo : String) (t : Desc Dig) : Out Body Dig :=
  existsOf (if isManifest mts t.mt then resolveManifest cx p c g rs repo (.dig t.dig)
            else resolveBlob cx p c g rs repo t.dig)

def repoDelete (cx : Ctx Body Dig) (mts : List String) (p : Prof) (c : Option (Corrupt Dig)) (g : Reg Body Dig)
    (rs : RState) (repo : String) (t : Desc Dig) : Out Body Dig :=
  if isManifest mts t.mt then deleteManifest cx p c g rs repo t else deleteRaw cx p c g rs repo t false

/-- What the spec allows of a request, at this level of abstraction: a body is sent with
    the length it declares (the HTTP-level rules are the registry
    validator's, `go/harness/fakereg.go validateRequest`). -/
def Allowed (cx : Ctx Body Dig) : Req Body Dig → Bool
  | .putUpload _ _ _ clen body => clen = cx.len body
  | .putMan _ _ _ clen body => clen = cx.len body
  | _ => true

end
end Oras.Remote
