/-
  Model of `registry/reference.go`: `ParseReference`, `Reference.String`, the validators,
  and go-digest's `Digest.Validate` for the available algorithms.

  Strings are `List Char`.  The registry validator (`url.ParseRequestURI`, net/url) is a
  parameter `validReg`; the component recognisers are the regular-expression trees
  regenerated from the source (`Gen/Regex.lean`).
-/
import OrasModel.Model.Re
namespace Oras

abbrev Str := List Char

/-- `strings.Index`/`SplitN(_, _, 2)` on one separator: text before and after the first
    occurrence. -/
def splitFirst (c : Char) : Str → Option (Str × Str)
  | [] => none
  | x :: xs =>
    if x = c then some ([], xs)
    else match splitFirst c xs with
      | some (a, b) => some (x :: a, b)
      | none => none

structure Ref where
  registry : Str
  repository : Str
  reference : Str
  deriving DecidableEq, Repr

/-- The component recognisers a parser is instantiated with. -/
structure RefCfg where
  validReg : Str → Bool
  repoRe : Re
  tagRe : Re
  algs : List (Str × Re)       -- algorithm name ↦ anchored pattern of the encoded part

/-- go-digest `Digest.Validate` restricted to "valid or not" (`digest.go:101-116`,
    `algorithm.go:179-193`): first `:` splits algorithm from encoded part; algorithm must be
    registered; the encoded part must match the algorithm's pattern (which also fixes its
    length). -/
def digestOk (cfg : RefCfg) (s : Str) : Bool :=
  match splitFirst ':' s with
  | none => false
  | some (alg, enc) =>
    if alg.isEmpty || enc.isEmpty then false
    else match cfg.algs.lookup alg with
      | none => false
      | some re => re.accepts enc

def repoOk (cfg : RefCfg) (s : Str) : Bool := cfg.repoRe.accepts s
def tagOk (cfg : RefCfg) (s : Str) : Bool := cfg.tagRe.accepts s

/-- The splitting phase of `ParseReference` (`reference.go:116-147`):
    registry, repository, reference, isTag. -/
def splitRef (s : Str) : Option (Str × Str × Str × Bool) :=
  match splitFirst '/' s with
  | none => none
  | some (reg, path) =>
    match splitFirst '@' path with
    | some (before, dg) =>
      match splitFirst ':' before with
      | some (repo, _) => some (reg, repo, dg, false)
      | none => some (reg, before, dg, false)
    | none =>
      match splitFirst ':' path with
      | some (repo, tag) => some (reg, repo, tag, true)
      | none => some (reg, path, [], false)

/-- `ParseReference` (`reference.go:116-173`); `none` = `ErrInvalidReference`. -/
def parseRef (cfg : RefCfg) (s : Str) : Option Ref :=
  match splitRef s with
  | none => none
  | some (reg, repo, ref, isTag) =>
    if !cfg.validReg reg then none
    else if !repoOk cfg repo then none
    else if ref.isEmpty then some ⟨reg, repo, []⟩
    else if isTag then (if tagOk cfg ref then some ⟨reg, repo, ref⟩ else none)
    else (if digestOk cfg ref then some ⟨reg, repo, ref⟩ else none)

/-- `Reference.String` (`reference.go:262-275`). -/
def Ref.format (cfg : RefCfg) (r : Ref) : Str :=
  if r.repository.isEmpty then r.registry
  else
    let base := r.registry ++ '/' :: r.repository
    if r.reference.isEmpty then base
    else if digestOk cfg r.reference then base ++ '@' :: r.reference
    else base ++ ':' :: r.reference

/-- `Reference.ValidateReference` (`reference.go:228-238`). -/
def validateReference (cfg : RefCfg) (ref : Str) : Bool :=
  if ref.isEmpty then true
  else if ref.contains ':' then digestOk cfg ref
  else tagOk cfg ref

end Oras

namespace Oras

/-- `(*Repository).ParseReference` (`registry/remote/repository.go:354-387`). -/
def repoParseRef (cfg : RefCfg) (base : Ref) (input : Str) : Option Ref :=
  let r? : Option Ref :=
    match parseRef cfg input with
    | some ref =>
      if ref.registry ≠ base.registry ∨ ref.repository ≠ base.repository then none else some ref
    | none =>
      match splitFirst '@' input with
      | some (_, d) => if digestOk cfg d then some ⟨base.registry, base.repository, d⟩ else none
      | none =>
        if validateReference cfg input then some ⟨base.registry, base.repository, input⟩ else none
  match r? with
  | some r => if r.reference.isEmpty then none else some r
  | none => none

/-- `buildRepositoryManifestURL` / `buildRepositoryBlobURL` path part (`url.go`). -/
def urlPath (kind : Str) (r : Ref) : Str :=
  "/v2/".toList ++ r.repository ++ '/' :: kind ++ '/' :: r.reference

end Oras
