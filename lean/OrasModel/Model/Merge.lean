/-
  Model of `syncutil.Merge.Do` (`internal/syncutil/merge.go`), which batches concurrent
  referrers-index updates of one subject (`registry/remote/repository.go`
  `updateReferrersIndex`): callers are assigned to the open batch (or, once it is committed,
  to the pending one); one member of a batch receives the main token and runs `prepare`,
  commits, runs `resolve` on the batch's items and completes, which hands the result to
  every member and opens the pending batch.  Any number of callers, any interleaving.
-/
namespace Oras

inductive MPC where
  | out                              -- has not called `Do` yet
  | waiting (b : Nat)                -- assigned to batch b, blocked on its status channel
  | preparing (b : Nat)              -- main of batch b, inside `prepare`
  | resolving (b : Nat)              -- main of batch b, inside `resolve`
  | done (b : Nat) (ok : Bool)       -- `Do` returned batch b's result
  deriving DecidableEq, Repr

def MPC.active : MPC → Bool
  | .preparing _ | .resolving _ => true
  | _ => false

structure MergeSt where
  cur : Nat                          -- the batch whose window is open, or that is executing
  committed : Bool
  items : List Nat                   -- callers of batch `cur`
  pending : List Nat                 -- callers of batch `cur + 1`
  token : Bool                       -- the main token sits in batch `cur`'s channel
  pc : Nat → MPC
  outcome : List (Nat × Bool)        -- history: batch ↦ result handed out by `complete`
  resolved : List (Nat × List Nat)   -- history: batch ↦ items passed to `resolve`

def MergeSt.init : MergeSt := ⟨0, false, [], [], false, fun _ => .out, [], []⟩

/-- `complete(ok)` by the main of batch `cur`: every member gets the result, the pending
    batch becomes the current one (with its main token, if it has members). -/
def MergeSt.complete (s : MergeSt) (ok : Bool) : MergeSt :=
  { s with
    cur := s.cur + 1, committed := false, items := s.pending, pending := [],
    token := !s.pending.isEmpty,
    pc := fun j => if j ∈ s.items then .done s.cur ok else s.pc j,
    outcome := (s.cur, ok) :: s.outcome }

inductive MergeStep : MergeSt → MergeSt → Prop
  /-- `assign` while the window is open -/
  | assignOpen (s : MergeSt) (i : Nat) (hi : s.pc i = .out) (hc : s.committed = false) :
      MergeStep s { s with items := s.items ++ [i], token := s.token || s.items.isEmpty,
                           pc := fun j => if j = i then .waiting s.cur else s.pc j }
  /-- `assign` after `commit`: the pending batch -/
  | assignPending (s : MergeSt) (i : Nat) (hi : s.pc i = .out) (hc : s.committed = true) :
      MergeStep s { s with pending := s.pending ++ [i],
                           pc := fun j => if j = i then .waiting (s.cur + 1) else s.pc j }
  /-- a member of the current batch receives `mergeStatus{main: true}` -/
  | takeMain (s : MergeSt) (i : Nat) (hi : s.pc i = .waiting s.cur) (ht : s.token = true) :
      MergeStep s { s with token := false, pc := fun j => if j = i then .preparing s.cur else s.pc j }
  /-- `prepare` succeeded: `commit` closes the window -/
  | prepareOk (s : MergeSt) (i : Nat) (hi : s.pc i = .preparing s.cur) :
      MergeStep s { s with committed := true, pc := fun j => if j = i then .resolving s.cur else s.pc j }
  /-- `prepare` failed: `commit`, then `complete(err)` without `resolve` -/
  | prepareFail (s : MergeSt) (i : Nat) (hi : s.pc i = .preparing s.cur) :
      MergeStep s (s.complete false)
  /-- `resolve(items)` returned -/
  | resolveDone (s : MergeSt) (i : Nat) (ok : Bool) (hi : s.pc i = .resolving s.cur) :
      MergeStep s { s.complete ok with resolved := (s.cur, s.items) :: s.resolved }

inductive MergeReach : MergeSt → Prop
  | init : MergeReach MergeSt.init
  | step {s t : MergeSt} : MergeReach s → MergeStep s t → MergeReach t

end Oras
