/-
  C16: the `WWW-Authenticate` parser (`registry/remote/auth/challenge.go`: `parseChallenge`,
  `parseToken`, `skipSpace`, `parseScheme`), on character lists.

  Quoted parameter values follow Go's `strconv.QuotedPrefix` / `Unquote`; the model covers
  quoted strings with the escapes `\\"` and `\\\\` and reports any other backslash as `unsupported`
  (the harness does not send those).
-/
namespace Oras.Challenge

inductive Scheme where | basic | bearer | unknown
  deriving DecidableEq, Repr

def isAlpha (c : Char) : Bool := ('a' ≤ c && c ≤ 'z') || ('A' ≤ c && c ≤ 'Z')
def isDigit (c : Char) : Bool := '0' ≤ c && c ≤ '9'

/-- `tchar` of RFC 7230 section 3.2.6. -/
def isTokenChar (c : Char) : Bool := isAlpha c || isDigit c || "!#$%&'*+-.^_`|~".toList.contains c

/-- `parseToken`: the longest prefix of token characters, and the rest. -/
def parseToken : List Char → List Char × List Char
  | [] => ([], [])
  | c :: cs => if isTokenChar c then let (t, r) := parseToken cs; (c :: t, r) else ([], c :: cs)

/-- `skipSpace`: drop leading spaces and tabs. -/
def skipSpace : List Char → List Char
  | [] => []
  | c :: cs => if c = ' ' ∨ c = '\t' then skipSpace cs else c :: cs

def lower (c : Char) : Char := if 'A' ≤ c ∧ c ≤ 'Z' then Char.ofNat (c.toNat + 32) else c

def parseScheme (s : List Char) : Scheme :=
  let l := s.map lower
  if l = "basic".toList then .basic else if l = "bearer".toList then .bearer else .unknown

/-- A quoted string without escapes: the text up to the closing quote and what follows it;
    `none` if it is not closed, `some none` if a backslash occurs (outside the model). -/
def quoted : List Char → Option (Option (List Char × List Char))
  | [] => none
  | '\\' :: '"' :: cs => (match quoted cs with
      | some (some (v, r)) => some (some ('"' :: v, r))
      | other => other)
  | '\\' :: '\\' :: cs => (match quoted cs with
      | some (some (v, r)) => some (some ('\\' :: v, r))
      | other => other)
  | c :: cs =>
    if c = '"' then some (some ([], cs))
    else if c = '\\' then some none   -- other escape sequences: outside the model
    else if c = '\n' then none      -- a raw newline is not allowed in an interpreted string literal
    else match quoted cs with
      | some (some (v, r)) => some (some (c :: v, r))
      | other => other

inductive Result where
  | ok (params : List (List Char × List Char))    -- in the order parsed (later ones override)
  | unsupported
  deriving DecidableEq, Repr

/-- The parameter loop of `parseChallenge`; `fuel` bounds the iterations (each consumes input). -/
def params : Nat → List Char → List (List Char × List Char) → Result
  | 0, _, acc => .ok acc
  | fuel + 1, rest, acc =>
    let (key, r1) := parseToken (skipSpace rest)
    if key = [] then .ok acc else
    match skipSpace r1 with
    | '=' :: r2 =>
      match skipSpace r2 with
      | [] => .ok acc
      | '"' :: r3 =>
        (match quoted r3 with
         | none => .ok acc
         | some none => .unsupported
         | some (some (v, r4)) =>
           let acc' := acc ++ [(key, v)]
           match skipSpace r4 with
           | ',' :: r5 => params fuel r5 acc'
           | _ => .ok acc')
      | r3 =>
        let (v, r4) := parseToken r3
        if v = [] then .ok acc else
        let acc' := acc ++ [(key, v)]
        match skipSpace r4 with
        | ',' :: r5 => params fuel r5 acc'
        | _ => .ok acc'
    | _ => .ok acc

/-- `parseChallenge`: the scheme, and for Bearer the parameters. -/
def parseChallenge (header : List Char) : Scheme × Result :=
  let (s, rest) := parseToken header
  let scheme := parseScheme s
  if scheme ≠ .bearer then (scheme, .ok []) else (scheme, params (header.length + 1) rest [])

/-- The map the code builds: the last value of each key. -/
def lookup (ps : List (List Char × List Char)) (k : List Char) : Option (List Char) :=
  (ps.reverse.find? (fun p => p.1 = k)).map (·.2)

end Oras.Challenge
