/-
  C08: where the entries of a tar archive are (`internal/fs/tarfs/tarfs.go`, `indexEntries` /
  `Open`).  An entry is a run of 512-byte blocks: any number of extension records (PAX `x`/`g`,
  GNU long name / long link: a header block and a padded payload each), the entry's own header
  block, and its padded payload.  `archive/tar`'s reader stands at the payload after `Next`;
  tarfs records that position minus one block and later starts a fresh reader there.
-/
namespace Oras.TarOff

structure TEnt where
  ext : List Nat      -- payload sizes of the extension records in front of the header
  size : Nat          -- payload size
  deriving DecidableEq, Repr

def blockSize : Nat := 512
def padded (n : Nat) : Nat := (n + 511) / 512 * 512

def extLen (e : TEnt) : Nat := (e.ext.map (fun x => blockSize + padded x)).sum
def entLen (e : TEnt) : Nat := extLen e + blockSize + padded e.size

/-- Offsets of the entries' own header blocks, for an archive starting at `start`. -/
def headerOffs : Nat → List TEnt → List Nat
  | _, [] => []
  | start, e :: es => (start + extLen e) :: headerOffs (start + entLen e) es

/-- Where the reader stands after `Next` of each entry: at its payload. -/
def dataOffs (start : Nat) (es : List TEnt) : List Nat := (headerOffs start es).map (· + blockSize)

/-- What `indexEntries` records: the reader's position minus one block. -/
def recorded (start : Nat) (es : List TEnt) : List Nat := (dataOffs start es).map (· - blockSize)

/-- Offsets computed from the payload sizes alone (one header block per entry). -/
def arithOffs : Nat → List TEnt → List Nat
  | _, [] => []
  | pos, e :: es => pos :: arithOffs (pos + blockSize + padded e.size) es

end Oras.TarOff
