/-
  Model of the docker-config credentials file store
  (`registry/remote/credentials/internal/config/config.go`: `GetCredential`,
  `PutCredential`, `DeleteCredential`, `encodeAuth`/`decodeAuth`, `ToHostname`;
  `file_store.go`: `validateCredentialFormat`).

  base64 and JSON are abstract, lossless codecs: the `auth` field is modelled by the string
  it encodes, an entry by its known fields plus an opaque tag standing for everything this
  library does not know about.
-/
import OrasModel.Model.Ref
namespace Oras

structure Cred where
  username : Str
  password : Str
  refreshToken : Str
  accessToken : Str
  deriving DecidableEq, Repr

def Cred.empty : Cred := ⟨[], [], [], []⟩

/-- One entry of "auths": the known fields and an opaque tag for the unknown ones. -/
structure AuthEntry where
  auth : Option Str          -- decoded content of the base64 "auth" field, if the field is non-empty
  identityToken : Str
  registryToken : Str
  legacyUser : Str
  legacyPass : Str
  unknown : Nat              -- everything else in the raw JSON object (0 = nothing)
  deriving DecidableEq, Repr

/-- `encodeAuth`: empty when both parts are empty. -/
def encodeAuth (u p : Str) : Option Str := if u = [] ∧ p = [] then none else some (u ++ ':' :: p)

/-- `NewAuthConfig`. -/
def entryOfCred (c : Cred) : AuthEntry :=
  ⟨encodeAuth c.username c.password, c.refreshToken, c.accessToken, [], [], 0⟩

/-- `AuthConfig.Credential` (`config.go:77-93`); `none` = invalid config format. -/
def credOfEntry (e : AuthEntry) : Option Cred :=
  match e.auth with
  | none => some ⟨e.legacyUser, e.legacyPass, e.identityToken, e.registryToken⟩
  | some a =>
    match splitFirst ':' a with
    | some (u, p) => some ⟨u, p, e.identityToken, e.registryToken⟩
    | none => none

/-- `ToHostname`: strip an `http://` or `https://` prefix and everything from the first `/`. -/
def stripPrefix (pre s : Str) : Str := if pre.isPrefixOf s then s.drop pre.length else s

def toHostname (addr : Str) : Str :=
  let a := stripPrefix "https://".toList (stripPrefix "http://".toList addr)
  match splitFirst '/' a with
  | some (h, _) => h
  | none => a

structure CredCfg where
  auths : List (Str × AuthEntry)          -- "auths", keys unique
  others : List (Str × Nat)               -- every other top-level key, opaque
  deriving DecidableEq, Repr

def CredCfg.lookup (c : CredCfg) (addr : Str) : Option AuthEntry :=
  (c.auths.find? (fun e => e.1 = addr)).map (·.2)

/-- `GetCredential`: exact key, else the first legacy key whose hostname matches. -/
def CredCfg.get (c : CredCfg) (addr : Str) : Option Cred :=
  match c.lookup addr with
  | some e => credOfEntry e
  | none =>
    match c.auths.find? (fun e => toHostname e.1 = addr) with
    | some e => credOfEntry e.2
    | none => some Cred.empty

inductive CredErr where | badFormat deriving DecidableEq, Repr

/-- `FileStore.Put` → `PutCredential`. -/
def CredCfg.put (c : CredCfg) (addr : Str) (cr : Cred) : CredCfg × Except CredErr Unit :=
  if ':' ∈ cr.username then (c, .error .badFormat)
  else ({ c with auths := (addr, entryOfCred cr) :: c.auths.filter (fun e => e.1 ≠ addr) }, .ok ())

/-- `DeleteCredential`. -/
def CredCfg.delete (c : CredCfg) (addr : Str) : CredCfg :=
  { c with auths := c.auths.filter (fun e => e.1 ≠ addr) }

end Oras
