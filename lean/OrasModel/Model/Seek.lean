/-
  Model of `internal/httputil/seek.go` (`readSeekCloser`): a blob reader over an HTTP body
  that re-requests a byte range when the position changes.

  The current body is the list of bytes it will still deliver.  `Read n` stands for
  `io.ReadFull` of an `n`-byte buffer (the harness reads that way), which removes the
  transport's freedom to return short reads.  The server is a parameter: `srv off` is the
  body of the 206 answer to `Range: bytes=off-(size-1)`, or `none` when the request fails
  or is answered with another status.
-/
import OrasModel.Model.Basic
namespace Oras.Seek

structure Rsc (β : Type) where
  size : Nat
  off : Nat
  rest : List β
  closed : Bool

inductive Op where
  | read (n : Nat)
  | seek (offset : Int) (whence : Nat)   -- 0 start, 1 current, 2 end, others invalid
  | close
  deriving Repr, DecidableEq

inductive Ans (β : Type) where
  | data (bs : List β) (eof : Bool)
  | pos (n : Nat)
  | err
  | closed
  deriving Repr, DecidableEq

/-- The absolute position a `Seek(offset, whence)` asks for (`none`: invalid whence). -/
def seekTarget (offset : Int) (whence cur size : Nat) : Option Int :=
  match whence with
  | 0 => some offset
  | 1 => some (offset + cur)
  | 2 => some (offset + size)
  | _ => none

def step {β : Type} (srv : Nat → Option (List β)) (s : Rsc β) : Op → Rsc β × Ans β
  | .read n =>
    if s.closed then (s, .err)
    else
      let bs := s.rest.take n
      ({ s with off := s.off + bs.length, rest := s.rest.drop n }, .data bs (decide (bs.length < n)))
  | .seek offset whence =>
    if s.closed then (s, .err)
    else
      match seekTarget offset whence s.off s.size with
      | none => (s, .err)
      | some t =>
        if t < 0 then (s, .err)
        else
          let o := t.toNat
          if o = s.off then (s, .pos o)
          else if o ≥ s.size then ({ s with off := o, rest := [] }, .pos o)
          else match srv o with
            | none => (s, .err)
            | some body => ({ s with off := o, rest := body }, .pos o)
  | .close => ({ s with closed := true }, .closed)

/-- The specification: a cursor over immutable content (what `bytes.Reader` does). -/
structure Cur where
  pos : Nat
  closed : Bool

def specStep {β : Type} (content : List β) (c : Cur) : Op → Cur × Ans β
  | .read n =>
    if c.closed then (c, .err)
    else
      let bs := (content.drop c.pos).take n
      ({ c with pos := c.pos + bs.length }, .data bs (decide (bs.length < n)))
  | .seek offset whence =>
    if c.closed then (c, .err)
    else
      match seekTarget offset whence c.pos content.length with
      | none => (c, .err)
      | some t => if t < 0 then (c, .err) else ({ c with pos := t.toNat }, .pos t.toNat)
  | .close => ({ c with closed := true }, .closed)

def run {σ α ω : Type} (f : σ → α → σ × ω) : σ → List α → List ω
  | _, [] => []
  | s, a :: rest => (f s a).2 :: run f (f s a).1 rest

/-- A range-capable server over the same content. -/
def goodSrv {β : Type} (content : List β) (o : Nat) : Option (List β) := some (content.drop o)

def open_ {β : Type} (content : List β) : Rsc β := ⟨content.length, 0, content, false⟩

end Oras.Seek
