/-
  Model of the OCI-layout store (`content/oci/oci.go`, `readonlyoci.go`) on top of
  `resolver.Memory` (`internal/resolver/memory.go`) and `graph.Memory` (`Model/GraphMem`).

  Universe assumption (the property's own restriction): one (mediaType, size) per digest,
  so a node *is* its digest and its descriptor key.  Content is symbolic.  Go map
  iteration order is replaced by list order; every observable set is sorted.
-/
import OrasModel.Model.GraphMem
import OrasModel.Model.Copy
namespace Oras

inductive RefKey where
  | tag (name : Nat)       -- a reference name
  | dig (n : Node)         -- the digest string of node n
  deriving DecidableEq, Repr

inductive OErr where
  | alreadyExists | notFound | missingRef | invalidRef | hang
  deriving DecidableEq, Repr

structure OciCfg where
  succ : Node → List Node
  isMan : Node → Bool
  /-- subject of an OCI image manifest / index / artifact manifest (the kinds
      `manifestutil.Subject` and `registry.Referrers` look into). -/
  subject : Node → Option Node

structure OciSt where
  blobs : List Node                              -- files under blobs/
  refs : List (RefKey × Node × Nat)              -- resolver.index: reference ↦ (node, annotation class)
  tagsOf : Node → List RefKey                    -- resolver.tags (by digest); may hold stale names
  graph : GMem
  indexFile : List (Node × Option Nat × Nat)     -- index.json as last written
  autoSave : Bool := true
  autoGC : Bool := true

namespace OciSt

def empty : OciSt :=
  { blobs := [], refs := [], tagsOf := fun _ => [], graph := GMem.empty, indexFile := [] }

def lookupRef (st : OciSt) (k : RefKey) : Option (Node × Nat) :=
  (st.refs.find? (fun e => e.1 = k)).map (·.2)

/-- `resolver.Memory.Tag` **as it was before the repair of F16**: a reference that moves
    to another node stays in the tag set of the node it used to point to. -/
def resolverTagStale (st : OciSt) (n : Node) (ann : Nat) (k : RefKey) : OciSt :=
  { st with
    refs := (k, n, ann) :: st.refs.filter (fun e => e.1 ≠ k)
    tagsOf := fun m => if m = n then (if k ∈ st.tagsOf n then st.tagsOf n else st.tagsOf n ++ [k]) else st.tagsOf m }

/-- The tag sets after reference `k` stopped pointing to whatever it pointed to, unless that
    is `n` itself (`internal/resolver/memory.go`, `Tag`: the `old.Digest != desc.Digest`
    branch). -/
def dropOld (st : OciSt) (n : Node) (k : RefKey) (x : Node) : List RefKey :=
  match st.lookupRef k with
  | some (m, _) => if m ≠ n ∧ x = m then (st.tagsOf x).erase k else st.tagsOf x
  | none => st.tagsOf x

/-- `resolver.Memory.Tag`. -/
def resolverTag (st : OciSt) (n : Node) (ann : Nat) (k : RefKey) : OciSt :=
  let t0 := st.dropOld n k
  { st with
    refs := (k, n, ann) :: st.refs.filter (fun e => e.1 ≠ k)
    tagsOf := fun m => if m = n then (if k ∈ t0 n then t0 n else t0 n ++ [k]) else t0 m }

/-- `resolver.Memory.Untag`. -/
def resolverUntag (st : OciSt) (k : RefKey) : OciSt :=
  match st.lookupRef k with
  | none => st
  | some (n, _) =>
    { st with
      refs := st.refs.filter (fun e => e.1 ≠ k)
      tagsOf := fun m => if m = n then (st.tagsOf n).erase k else st.tagsOf m }

/-- `saveIndex` (`oci.go:427-458`): named entries, then digest entries of untagged nodes. -/
def project (st : OciSt) : List (Node × Option Nat × Nat) :=
  let named := st.refs.filterMap fun e => match e.1 with
    | .tag name => some (e.2.1, some name, e.2.2)
    | .dig _ => none
  let taggedNodes := named.map (·.1)
  let untagged := st.refs.filterMap fun e => match e.1 with
    | .dig _ => if taggedNodes.contains e.2.1 then none else some (e.2.1, (none : Option Nat), e.2.2)
    | .tag _ => none
  named ++ untagged

def saveIndex (st : OciSt) : OciSt := { st with indexFile := st.project }

def autosave (st : OciSt) : OciSt := if st.autoSave then st.saveIndex else st

/-- `Store.tag` (`oci.go:256-271`). -/
def tagInternal (st : OciSt) (n : Node) (ann : Nat) (k : RefKey) : OciSt :=
  let st1 := if k ≠ .dig n then st.resolverTag n ann (.dig n) else st
  (st1.resolverTag n ann k).autosave

/-- What `content.Successors` yields for the graph index: manifests are fetched (not found
    if absent), blobs are not. -/
def succOf (c : OciCfg) (blobs : List Node) (n : Node) : Option (List Node) :=
  if c.isMan n then (if n ∈ blobs then some (c.succ n) else none) else some []

/-- `Store.Push` with content that verifies (C05 covers the rest). -/
def push (c : OciCfg) (st : OciSt) (n : Node) : OciSt × Except OErr Unit :=
  if n ∈ st.blobs then (st, .error .alreadyExists)
  else
    let st1 := { st with blobs := n :: st.blobs, graph := st.graph.index n (if c.isMan n then c.succ n else []) }
    if c.isMan n then (st1.tagInternal n 0 (.dig n), .ok ()) else (st1, .ok ())

/-- `Store.Tag`; `name = none` is the empty reference. -/
def tag (st : OciSt) (n : Node) (ann : Nat) (k : Option RefKey) : OciSt × Except OErr Unit :=
  match k with
  | none => (st, .error .missingRef)
  | some k =>
    if n ∈ st.blobs then (st.tagInternal n ann k, .ok ()) else (st, .error .notFound)

/-- `Store.Untag`. -/
def untag (st : OciSt) (k : Option RefKey) : OciSt × Except OErr Unit :=
  match k with
  | none => (st, .error .missingRef)
  | some k =>
    match st.lookupRef k with
    | none => (st, .error .notFound)
    | some _ =>
      match k with
      | .dig _ => (st, .error .invalidRef)
      | .tag _ => ((st.resolverUntag k).autosave, .ok ())

inductive Resolved where
  | full (n : Node) (ann : Nat)     -- descriptor as tagged
  | plain (n : Node)                -- digest reference: plain descriptor
  | blob (n : Node)                 -- `resolveBlob`: octet-stream descriptor of a file on disk
  deriving DecidableEq, Repr

/-- `Store.Resolve`. -/
def resolve (st : OciSt) (k : Option RefKey) : Except OErr Resolved :=
  match k with
  | none => .error .missingRef
  | some k =>
    match st.lookupRef k with
    | some (n, ann) => (match k with | .dig _ => .ok (.plain n) | .tag _ => .ok (.full n ann))
    | none =>
      match k with
      | .dig n => if n ∈ st.blobs then .ok (.blob n) else .error .notFound
      | .tag _ => .error .notFound

def tags (st : OciSt) : List Nat :=
  st.refs.filterMap fun e => match e.1 with | .tag name => some name | .dig _ => none

/-- `isTagged` (`oci.go:586-592`). -/
def isTagged (st : OciSt) (n : Node) : Bool :=
  let ts := st.tagsOf n
  if ts.contains (.dig n) then ts.length > 1 else ts.length > 0

/-- `registry.Referrers` over the graph index (`registry/repository.go:146-226`): stored
    predecessors whose subject is `n`.  `none` = a predecessor's bytes are missing. -/
def referrers (c : OciCfg) (st : OciSt) (n : Node) : Option (List Node) :=
  (st.graph.predecessors n).foldr (fun p acc =>
    match acc with
    | none => none
    | some l =>
      match c.subject p with
      | none => some l                      -- not a referrer-capable kind, or no subject
      | some s => if p ∈ st.blobs then (if s = n then some (p :: l) else some l) else none)
    (some [])

/-- `Store.delete` (`oci.go:202-225`). -/
def deleteOne (st : OciSt) (n : Node) : OciSt × Except OErr (List Node) :=
  let hits := st.refs.filter (fun e => e.2.1 = n)
  let st1 := hits.foldl (fun s e => s.resolverUntag e.1) st
  let (g', dang) := st1.graph.remove n
  let st2 := { st1 with graph := g' }
  let st3 := if !hits.isEmpty && st2.autoSave then st2.saveIndex else st2
  if n ∈ st3.blobs then ({ st3 with blobs := st3.blobs.erase n }, .ok dang)
  else (st3, .error .notFound)

/-- `Store.Delete` (`oci.go:165-199`): the queue loop, with fuel.  Also returns the heads
    processed so far (the last one is the failing one when the result is an error). -/
def deleteLoop (c : OciCfg) (skipTaggedRefs skipAbsent : Bool) :
    Nat → List Node → List Node → OciSt → OciSt × Except OErr Unit × List Node
  | 0, _, seen, st => (st, .error .hang, seen)
  | _, [], seen, st => (st, .ok (), seen)
  | fuel + 1, head :: q, seen, st =>
    -- (repair of F8/F9: a queued node that is not in storage is skipped; the target itself,
    -- i.e. the first element, is always attempted)
    if skipAbsent && !seen.isEmpty && !st.blobs.contains head then
      deleteLoop c skipTaggedRefs skipAbsent fuel q seen st
    else
    let refsR : Option (List Node) :=
      if st.autoGC && c.isMan head then referrers c st head else some []
    match refsR with
    | none => (st, .error .notFound, seen ++ [head])
    | some rs =>
      -- (repair of F2: tagged referrers are not queued)
      let rs := if skipTaggedRefs then rs.filter (fun r => !st.isTagged r) else rs
      match st.deleteOne head with
      | (st', .error e) => (st', .error e, seen ++ [head])
      | (st', .ok dang) =>
        let more := if st'.autoGC then dang.filter (fun d => !st'.isTagged d) else []
        deleteLoop c skipTaggedRefs skipAbsent fuel (q ++ rs ++ more) (seen ++ [head]) st'

def delete (c : OciCfg) (skipTaggedRefs skipAbsent : Bool) (st : OciSt) (n : Node) (fuel : Nat) :
    OciSt × Except OErr Unit × List Node :=
  deleteLoop c skipTaggedRefs skipAbsent fuel [n] [] st

/-- `loadIndex` (`readonlyoci.go:171-187`) into the given (fresh) resolver and graph. -/
def loadIndex (c : OciCfg) (st : OciSt) (fuel : Nat) : OciSt :=
  st.indexFile.foldl (fun s e =>
    let (n, name, ann) := e
    let s1 := s.resolverTag n ann (.dig n)
    let s2 := match name with | some nm => s1.resolverTag n ann (.tag nm) | none => s1
    { s2 with graph := GMem.indexAll (succOf c st.blobs) fuel s2.graph n }) st

/-- Opening the same directory again (`oci.New`, `NewFromFS`, `NewFromTar`). -/
def reopen (c : OciCfg) (st : OciSt) (fuel : Nat) : OciSt :=
  loadIndex c { OciSt.empty with blobs := st.blobs, indexFile := st.indexFile } fuel

end OciSt
end Oras

namespace Oras
namespace OciSt

/-- The subject walk of `gcIndex` for one untagged digest entry, **as written**: the inner
    `subject, err := …` shadows the loop variable, so every iteration re-reads the entry's
    own subject (finding F1).  Returns whether the entry is to be indexed. -/
def gcWalkBuggy (c : OciCfg) (g : GMem) (n : Node) : Except OErr Bool :=
  match c.subject n with
  | none => .ok false
  | some s => if g.exists_ s then .ok true else .error .hang

/-- The subject walk with the loop variable actually advanced (the repaired code): follow
    the chain; a subject whose manifest is not stored ends the chain (the referrer is
    dangling). -/
def gcWalk (c : OciCfg) (blobs : List Node) (g : GMem) : Nat → Node → Except OErr Bool
  | 0, _ => .error .hang
  | fuel + 1, cur =>
    match c.subject cur with
    | none => .ok false
    | some s =>
      if g.exists_ s then .ok true
      else if blobs.contains s then gcWalk c blobs g fuel s
      else .ok false

/-- `gcIndex`, step 1, one tagged entry: both references are recorded and the manifest's
    graph is indexed. -/
def gcTagStep (c : OciCfg) (blobs : List Node) (fuel : Nat) (s : OciSt) (e : RefKey × Node × Nat) : OciSt :=
  let s' := (s.resolverTag e.2.1 e.2.2 (.dig e.2.1)).resolverTag e.2.1 e.2.2 e.1
  { s' with graph := GMem.indexAll (succOf c blobs) fuel s'.graph e.2.1 }

/-- `gcIndex`, step 2, one untagged digest entry that is not indexed yet: indexed when its
    subject chain reaches the graph. -/
def gcRefStep (c : OciCfg) (fixed : Bool) (blobs : List Node) (fuel : Nat)
    (acc : Except OErr OciSt) (e : RefKey × Node × Nat) : Except OErr OciSt :=
  match acc with
  | .error err => .error err
  | .ok s =>
    if s.graph.exists_ e.2.1 && (s.lookupRef (.dig e.2.1)).isSome then .ok s   -- done in an earlier pass
    else
    let w := if fixed then gcWalk c blobs s.graph fuel e.2.1 else gcWalkBuggy c s.graph e.2.1
    match w with
    | .error err => .error err
    | .ok false => .ok s
    | .ok true =>
      let s' := s.resolverTag e.2.1 e.2.2 (.dig e.2.1)
      .ok { s' with graph := GMem.indexAll (succOf c blobs) fuel s'.graph e.2.1 }

/-- one pass over the untagged digest entries -/
def gcPass (c : OciCfg) (fixed : Bool) (blobs : List Node) (fuel : Nat)
    (rest : List (RefKey × Node × Nat)) (acc : Except OErr OciSt) : Except OErr OciSt :=
  rest.foldl (gcRefStep c fixed blobs fuel) acc

/-- the tagged entries of the resolver -/
def gcNamed (st : OciSt) : List (RefKey × Node × Nat) :=
  st.refs.filter fun e => match e.1 with | .tag _ => true | .dig _ => false

/-- the empty resolver and graph `gcIndex` starts from -/
def gcFresh (st : OciSt) : OciSt :=
  { OciSt.empty with blobs := st.blobs, indexFile := st.indexFile, autoSave := st.autoSave, autoGC := st.autoGC }

/-- `gcIndex` (`oci.go:529-583`); `fixed` selects the repaired subject walk. -/
def gcIndex (c : OciCfg) (fixed repeatPass : Bool) (st : OciSt) (fuel : Nat) : Except OErr OciSt :=
  -- 1. tagged manifests
  let named := st.gcNamed
  let s1 := named.foldl (gcTagStep c st.blobs fuel) st.gcFresh
  let taggedNodes := named.map (·.2.1)
  -- 2. untagged digest entries whose subject chain reaches the graph
  let rest := st.refs.filter fun e => match e.1 with
    | .dig _ => !taggedNodes.contains e.2.1
    | .tag _ => false
  -- the pass is repeated until it indexes nothing new (`repeat`): a referrer may only become
  -- reachable through another referrer; `rest.length` passes reach the fixed point
  if repeatPass then (List.range (rest.length + 1)).foldl (fun acc _ => gcPass c fixed st.blobs fuel rest acc) (.ok s1)
  else gcPass c fixed st.blobs fuel rest (.ok s1)

/-- `Store.GC` (`oci.go:474-525`): reload the index, then remove every blob file whose
    digest is not a node of the new graph.  `saveAfter` models the repair of F5. -/
def gc (c : OciCfg) (fixed repeatPass saveAfter : Bool) (st : OciSt) (fuel : Nat) : OciSt × Except OErr Unit :=
  match gcIndex c fixed repeatPass st fuel with
  | .error e => (st, .error e)
  | .ok s =>
    let s' := { s with blobs := s.blobs.filter (fun b => s.graph.nodes b) }
    (if saveAfter then s'.autosave else s', .ok ())

end OciSt
end Oras
