/-
  Model of the retrying transport and the auth client's re-send
  (`registry/remote/retry/client.go` `Transport.RoundTrip`, `policy.go`
  `GenericPolicy.Retry`, `DefaultPredicate`, `ExponentialBackoff`'s guard;
  `registry/remote/auth/client.go` `Do` + `rewindRequestBody`).

  A server script gives the behaviour of each physical attempt.  Bodies: none, replayable
  (`GetBody` set) or one-shot.  What the server receives per attempt is recorded.
-/
namespace Oras

inductive Srv where
  | status (code : Nat) (retryAfter : Option Nat)    -- any HTTP answer
  | unauthorized (bearer : Bool)                      -- 401 with a Basic / Bearer challenge
  | timeout                                           -- net.Error with Timeout() = true
  | netErr                                            -- any other transport error
  deriving DecidableEq, Repr

inductive BodyKind where | none | replay | oneshot
  deriving DecidableEq, Repr

/-- What the server saw as the request body of one attempt. -/
inductive Recv where | none | full | truncated
  deriving DecidableEq, Repr

inductive Outcome where
  | resp (s : Srv)         -- the response (or transport error) handed back
  | predicateErr           -- the predicate's error (non-timeout transport error)
  | ctxErr                 -- context cancelled during a pause
  | notRewindable          -- auth client: request body is not rewindable
  | exhausted              -- script ran out (harness bug, never in a real run)
  deriving DecidableEq, Repr

structure RetryPolicy where
  maxRetry : Nat
  minWait : Int
  maxWait : Int
  backoff : Nat → Int       -- value the Backoff function returns for attempt i (any Int64)

/-- `DefaultPredicate` (`policy.go:44-63`): `some true` retry, `some false` do not,
    `none` = return the transport error. -/
def retryable : Srv → Option Bool
  | .timeout => some true
  | .netErr => none
  | .status code _ => some (code == 408 || code == 429 || code == 0 || code ≥ 500)
  | .unauthorized _ => some false

/-- `GenericPolicy.Retry`'s clamp (`policy.go:143-152`). -/
def clamp (p : RetryPolicy) (b : Int) : Int :=
  let b1 := if b < p.minWait then p.minWait else b
  if b1 > p.maxWait then p.maxWait else b1

structure RTResult where
  recv : List Recv          -- per physical attempt
  pauses : List Int
  outcome : Outcome
  rest : List Srv           -- unconsumed server behaviours
  consumed : Bool           -- a one-shot body has been read

def recvOf (body : BodyKind) (consumed : Bool) : Recv :=
  match body with
  | .none => .none
  | .replay => .full
  | .oneshot => if consumed then .truncated else .full

/-- `Transport.RoundTrip` (`client.go:55-101`).  `cancelAt = some k` cancels the context
    during the k-th pause (0-based) of this round trip. -/
def roundTrip (p : RetryPolicy) (body : BodyKind) (cancelAt : Option Nat) :
    List Srv → Nat → Bool → List Recv → List Int → RTResult
  | [], _, consumed, recv, pauses => ⟨recv, pauses, .exhausted, [], consumed⟩
  | s :: rest, attempt, consumed, recv, pauses =>
    let recv' := recv ++ [recvOf body consumed]
    let consumed' := consumed || body == .oneshot
    if attempt ≥ p.maxRetry then ⟨recv', pauses, .resp s, rest, consumed'⟩
    else match retryable s with
      | none => ⟨recv', pauses, .predicateErr, rest, consumed'⟩
      | some false => ⟨recv', pauses, .resp s, rest, consumed'⟩
      | some true =>
        -- the policy has computed the pause (`policy.Retry`) before the body is looked at
        let d := clamp p (p.backoff attempt)
        let pauses' := pauses ++ [d]
        -- rewind the body if possible: a one-shot body cannot be re-sent, the response is returned
        if body == .oneshot then ⟨recv', pauses', .resp s, rest, consumed'⟩
        else
          if cancelAt == some pauses.length then ⟨recv', pauses', .ctxErr, rest, consumed'⟩
          else roundTrip p body cancelAt rest (attempt + 1) consumed' recv' pauses'

/-- `auth.Client.Do` without a token cache, with a credential that needs no token fetch:
    send; on a 401 with a recognised challenge rewind the body and send once more. -/
def authDo (p : RetryPolicy) (body : BodyKind) (script : List Srv) : List Recv × List Int × Outcome :=
  let r1 := roundTrip p body none script 0 false [] []
  match r1.outcome with
  | .resp (.unauthorized _) =>
    if body == .oneshot then (r1.recv, r1.pauses, .notRewindable)
    else
      let r2 := roundTrip p body none r1.rest 0 r1.consumed [] []
      (r1.recv ++ r2.recv, r1.pauses ++ r2.pauses, r2.outcome)
  | o => (r1.recv, r1.pauses, o)

/-- `ExponentialBackoff`'s jitter term: `rand.Int64N(n)` is called only for `n > 0`
    (`guarded = true`, the repaired code); `none` = panic. -/
def jitterTerm (guarded : Bool) (n : Int) (r : Int) : Option Int :=
  if n > 0 then some (r % n) else if guarded then some 0 else none

/-- The first step of `ExponentialBackoff`'s result (`policy.go`): a 429 whose `Retry-After`
    header parses (base 10) to a positive number of seconds decides the pause; anything else
    falls through to the exponential value `expo`.  Durations in nanoseconds. -/
def retryAfterPause (status : Nat) (ra : Option Int) (expo : Int) : Int :=
  if status = 429 then
    match ra with
    | some v => if v > 0 then v * 1000000000 else expo
    | none => expo
  else expo

end Oras
