/-
  Model of `findRoots` (`extendedcopy.go:150-218`): depth-first search over the
  predecessor relation with a visited set, a depth tag per stack entry and a root map.

  `preds n` is what `opts.FindPredecessors` returned for `n` (after any filters), in the
  order it returned them — the order comes out of Go map iteration, so theorems quantify
  over every `preds`.  The stack is a list whose head is the top.
-/
import OrasModel.Model.Copy
namespace Oras

structure FRSt where
  stack : List (Node × Nat)
  visited : List Node
  roots : List Node

def FRSt.init (n : Node) : FRSt := ⟨[(n, 0)], [], []⟩

def addRoot (n : Node) (roots : List Node) : List Node := if n ∈ roots then roots else n :: roots

/-- One iteration of the `for` loop; `none` when the stack is empty (loop exit). -/
def frStep (preds : Node → List Node) (depth : Nat) (s : FRSt) : Option FRSt :=
  match s.stack with
  | [] => none
  | (n, d) :: rest =>
    if n ∈ s.visited then some { s with stack := rest }
    else if depth > 0 ∧ d = depth then
      some { stack := rest, visited := n :: s.visited, roots := addRoot n s.roots }
    else if preds n = [] then
      some { stack := rest, visited := n :: s.visited, roots := addRoot n s.roots }
    else
      let fresh := (preds n).filter (fun p => decide (p ∉ n :: s.visited))
      some { stack := (fresh.map (fun p => (p, d + 1))).reverse ++ rest,
             visited := n :: s.visited, roots := s.roots }

/-- Run the loop with fuel; returns the state at loop exit, or `none` if fuel ran out. -/
def frRun (preds : Node → List Node) (depth : Nat) : Nat → FRSt → Option FRSt
  | 0, _ => none
  | fuel + 1, s => match frStep preds depth s with
    | none => some s
    | some s' => frRun preds depth fuel s'

def findRoots (preds : Node → List Node) (depth : Nat) (fuel : Nat) (n : Node) : Option (List Node) :=
  (frRun preds depth fuel (FRSt.init n)).map (·.roots)

/-- `r` is reachable from `a` by following predecessors `k` times. -/
inductive AncN (preds : Node → List Node) (a : Node) : Nat → Node → Prop
  | refl : AncN preds a 0 a
  | step {k : Nat} {b c : Node} : AncN preds a k b → c ∈ preds b → AncN preds a (k + 1) c

def Anc (preds : Node → List Node) (a r : Node) : Prop := ∃ k, AncN preds a k r

/-! ### Artifact-type / annotation filters (`extendedcopy.go:220-404`) -/

/-- What the filter needs to know about a predecessor: the descriptor the source
    returned (artifactType possibly empty) and what the manifest itself says. -/
structure PredInfo where
  isImageManifest : Bool
  isArtifactManifest : Bool
  isIndex : Bool
  descAT : String          -- descriptor's artifactType ("" when the source returns plain descriptors)
  manifestAT : String      -- artifactType recorded in the manifest ("" if none)
  configMT : String        -- config media type (image manifests)

/-- The artifact type `FilterArtifactType` tests (`extendedcopy.go` filter loop +
    `fetchArtifactType`, after the repair of finding F6: artifactType first, indexes read). -/
def filterAT (p : PredInfo) : String :=
  if p.descAT ≠ "" then p.descAT
  else if p.isArtifactManifest then p.manifestAT
  else if p.isImageManifest then (if p.manifestAT ≠ "" then p.manifestAT else p.configMT)
  else if p.isIndex then p.manifestAT
  else ""

/-- The property's notion: artifactType, else config media type. -/
def specAT (p : PredInfo) : String :=
  if p.manifestAT ≠ "" then p.manifestAT else if p.isImageManifest then p.configMT else ""

end Oras
