/-
  Shared basics for all models.  Core Lean only (the driver links against this).
-/
namespace Oras

/-- A descriptor key `(mediaType, digest, size)` abstracted to a number.  The harness
    numbers the distinct keys it uses; `descriptor.FromOCI` is the Go counterpart. -/
abbrev Key := Nat

/-- Point update of a total function (the model of a Go `map` assignment). -/
def fupd {β : Type} (f : Key → β) (k : Key) (v : β) : Key → β :=
  fun x => if x = k then v else f x

@[simp] theorem fupd_same {β : Type} (f : Key → β) (k : Key) (v : β) : fupd f k v k = v := by
  simp [fupd]

@[simp] theorem fupd_other {β : Type} (f : Key → β) (k x : Key) (v : β) (h : x ≠ k) :
    fupd f k v x = f x := by
  simp [fupd, h]

/-- Duplicate-free version of a list, keeping last occurrences (a Go `set.Set` built by
    `Add`ing every element; order is irrelevant to all users, results are sorted before
    being compared with the implementation). -/
def dedup : List Key → List Key
  | [] => []
  | x :: xs => if x ∈ xs then dedup xs else x :: dedup xs

@[simp] theorem mem_dedup (x : Key) (l : List Key) : x ∈ dedup l ↔ x ∈ l := by
  induction l with
  | nil => simp [dedup]
  | cons y ys ih =>
    unfold dedup
    by_cases h : y ∈ ys
    · simp only [h, if_true, ih, List.mem_cons]
      constructor
      · intro hx; exact Or.inr hx
      · intro hx; cases hx with
        | inl e => subst e; exact h
        | inr hx => exact hx
    · simp only [h, if_false, List.mem_cons, ih]

theorem nodup_dedup (l : List Key) : (dedup l).Nodup := by
  induction l with
  | nil => simp [dedup]
  | cons y ys ih =>
    unfold dedup
    by_cases h : y ∈ ys
    · simp only [h, if_true]; exact ih
    · simp only [h, if_false]
      exact List.nodup_cons.mpr ⟨by simpa using h, ih⟩

/-- Insertion into a duplicate-free list used as a set. -/
def sinsert (x : Key) (l : List Key) : List Key := if x ∈ l then l else l ++ [x]

@[simp] theorem mem_sinsert (x y : Key) (l : List Key) : y ∈ sinsert x l ↔ y = x ∨ y ∈ l := by
  unfold sinsert
  by_cases h : x ∈ l
  · simp only [h, if_true]
    constructor
    · intro hy; exact Or.inr hy
    · intro hy; cases hy with
      | inl e => subst e; exact h
      | inr hy => exact hy
  · simp only [h, if_false, List.mem_append, List.mem_singleton]
    constructor
    · intro hy; cases hy with
      | inl a => exact Or.inr a
      | inr a => exact Or.inl a
    · intro hy; cases hy with
      | inl a => exact Or.inr a
      | inr a => exact Or.inl a

theorem nodup_sinsert (x : Key) (l : List Key) (h : l.Nodup) : (sinsert x l).Nodup := by
  unfold sinsert
  by_cases hx : x ∈ l
  · simp only [hx, if_true]; exact h
  · simp only [hx, if_false]
    rw [List.nodup_append]
    refine ⟨h, by simp, ?_⟩
    intro a ha b hb
    simp at hb
    subst hb
    intro e; subst e; exact hx ha

/-- Insertion sort on naturals, used to canonicalise set-valued answers. -/
def insertSorted (x : Nat) : List Nat → List Nat
  | [] => [x]
  | y :: ys => if x ≤ y then x :: y :: ys else y :: insertSorted x ys

def sortNat (l : List Nat) : List Nat := l.foldr insertSorted []

end Oras
