/-
  C07, continued — after a layout is opened again (`oci.New`, `NewFromFS`, `NewFromTar`:
  `loadIndex` → `IndexAll` per `index.json` entry) and after `GC` rebuilt the graph the same
  way.  Property theorems only; lemmas in `Proofs/IndexAll.lean`, `Proofs/OciIndexAll.lean`.
-/
import OrasModel.Proofs.OciIndexAll
import OrasModel.Proofs.Stores
namespace Oras.Props.C07
open Oras Oras.OciSt Oras.GMem

/-- **`IndexAll` is complete and adds nothing false** (the statement the design left to
    correspondence): from any root, with fuel above the root's rank in the (acyclic) DAG,
    every manifest that can be read and is reachable from the root through readable manifests
    ends up indexed with each of its links, and what the graph held before is kept. -/
theorem c07_indexAll_complete (succOf : Key → Option (List Key)) (rk : Key → Nat)
    (hrk : RankOK succOf rk) (g : GMem) (root : Key) (fuel : Nat) (hfuel : rk root < fuel)
    (m : Key) (ss : List Key) (hreach : ReachOf succOf root m) (hs : succOf m = some ss) :
    (indexAll succOf fuel g root).nodes m = true ∧ (∀ k ∈ ss, m ∈ (indexAll succOf fuel g root).preds k) ∧
    (∀ k p, p ∈ g.preds k → p ∈ (indexAll succOf fuel g root).preds k) :=
  ⟨(indexAll_complete succOf rk hrk g root fuel hfuel m ss hreach hs).1,
   (indexAll_complete succOf rk hrk g root fuel hfuel m ss hreach hs).2,
   (indexAll_keeps succOf g root fuel).2⟩

/-- **Predecessors after reopening a layout are exact**: for every layout (any blobs, any
    `index.json`, written by this store or by another tool), every queried node `k` and every
    candidate `p`: `p` is reported only if it is a stored manifest that links to `k`, and it
    *is* reported whenever it is a stored manifest linking to `k` that some `index.json`
    entry reaches through stored manifests. -/
theorem c07_reopen_exact (c : OciCfg) (st : OciSt) (rk : Node → Nat)
    (hrk : RankOK (succOf c st.blobs) rk) (fuel : Nat) (hfuel : ∀ e ∈ st.indexFile, rk e.1 < fuel)
    (k p : Node) :
    (p ∈ (st.reopen c fuel).graph.predecessors k → c.isMan p = true ∧ p ∈ st.blobs ∧ k ∈ c.succ p) ∧
    (c.isMan p = true → p ∈ st.blobs → k ∈ c.succ p →
      (∃ e ∈ st.indexFile, ReachOf (succOf c st.blobs) e.1 p) →
      p ∈ (st.reopen c fuel).graph.predecessors k) := by
  have hg : (st.reopen c fuel).graph = loadGraph c st.blobs fuel st.indexFile GMem.empty := by
    unfold reopen
    rw [loadIndex_graph]
    rfl
  unfold GMem.predecessors
  rw [hg]
  constructor
  · intro h
    have hs := loadGraph_sound c st.blobs fuel st.indexFile GMem.empty (by
      intro k p hp; simp [GMem.empty] at hp)
    exact hs k p h
  · intro hm hb hk ⟨e, he, hreach⟩
    have hsucc : succOf c st.blobs p = some (c.succ p) := by simp [succOf, hm, hb]
    exact (loadGraph_complete c st.blobs rk hrk fuel st.indexFile GMem.empty hfuel e he p _ hreach hsucc).2 k hk

/-- Non-vacuity, and the shape the seeded change C07/m1 broke: `index.json` lists only an
    index (3) with a single manifest (2) over a config (0) and a layer (1); the hypotheses of
    `c07_reopen_exact` hold and it yields that the manifest is a predecessor of its config. -/
example :
    let c : OciCfg := { succ := fun n => if n = 3 then [2] else if n = 2 then [0, 1] else [],
                        isMan := fun n => n == 2 || n == 3, subject := fun _ => none }
    let st : OciSt := { OciSt.empty with blobs := [0, 1, 2, 3], indexFile := [(3, some 7, 0)] }
    2 ∈ (st.reopen c 10).graph.predecessors 0 := by
  intro c st
  have hrk : RankOK (succOf c st.blobs) (fun n => n) := by
    intro n ss h k hk
    by_cases h3 : n = 3
    · subst h3
      have : ss = [2] := by simpa [succOf, c, st] using h.symm
      subst this; simp at hk; subst hk; decide
    · by_cases h2 : n = 2
      · subst h2
        have : ss = [0, 1] := by simpa [succOf, c, st] using h.symm
        subst this; simp at hk; rcases hk with h | h <;> (subst h; decide)
      · have : ss = [] := by
          have hm : c.isMan n = false := by simp [c, h2, h3]
          simpa [succOf, hm] using h.symm
        subst this; cases hk
  refine (c07_reopen_exact c st (fun n => n) hrk 10 (by intro e he; simp [st] at he; subst he; decide) 0 2).2
    (by rfl) (by simp [st]) (by simp [c]) ⟨(3, some 7, 0), by simp [st], ?_⟩
  exact ReachOf.step ReachOf.refl (ss := [2]) (by simp [succOf, c, st]) (by simp)

/-! ### File store: `ForceCAS` -/

open FileSt in
theorem pushNamed_graph (c : StoreCfg) (re : Bool) (st : FileSt) (n : Node) (nm : Nat) (good : Bool) :
    (pushNamed c re st n nm good).1.graph = st.graph := by
  unfold pushNamed
  split
  · rfl
  · simp only
    cases re <;> cases good <;> rfl

open FileSt in
theorem restore_graph (c : StoreCfg) (st : FileSt) (m : Node) : (restore c st m).graph = st.graph := by
  unfold restore
  generalize c.succD m = l
  induction l generalizing st with
  | nil => rfl
  | cons d ds ih =>
    simp only [List.foldl_cons]
    rw [ih]
    cases d.name with
    | none => rfl
    | some nm =>
      simp only
      split
      · rfl
      · split
        · split
          · exact pushNamed_graph c false st d.node nm true
          · rfl
        · rfl

open FileSt in
/-- **`ForceCAS` does not touch the predecessor index**: a push into a file store records the
    same graph — hence answers `Predecessors` identically afterwards — whether duplicate
    restoration is switched off (`ForceCAS = true`) or not. -/
theorem c07_forcecas_same_graph (c : StoreCfg) (re : Bool) (st : FileSt) (d : SDesc) (good : Bool) :
    (FileSt.push c re st d good true).1.graph = (FileSt.push c re st d good false).1.graph ∧
    (FileSt.push c re st d good true).2 = (FileSt.push c re st d good false).2 := by
  unfold FileSt.push
  simp only [Bool.false_eq_true, false_and, if_false]
  cases hname : d.name with
  | none =>
    simp only
    by_cases hf : d.node ∈ st.fallback
    · simp [hf]
    · cases good with
      | false => simp [hf]
      | true =>
        simp only [hf, if_false, Bool.not_true, Bool.false_eq_true, Bool.not_false, Bool.and_true, Bool.and_false]
        by_cases hm : c.isMan d.node = true
        · simp only [hm, if_true, Bool.false_eq_true, if_false]
          refine ⟨?_, trivial⟩
          show GMem.index _ _ _ = GMem.index (restore c _ d.node).graph _ _
          rw [restore_graph]
        · simp [hm]
  | some nm =>
    simp only
    cases hr : pushNamed c re st d.node nm good with
    | mk s r =>
      cases r with
      | error e => simp
      | ok u =>
        simp only [Bool.not_true, Bool.and_false, Bool.false_eq_true, if_false, Bool.not_false, Bool.and_true]
        by_cases hm : c.isMan d.node = true
        · simp only [hm, if_true]
          refine ⟨?_, trivial⟩
          show GMem.index _ _ _ = GMem.index (restore c s d.node).graph _ _
          rw [restore_graph]
        · simp [hm]

end Oras.Props.C07
