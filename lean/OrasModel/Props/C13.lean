/-
  C13 — A remote Repository is a faithful, spec-conforming view of the registry.
  Property theorems only.  Models: `Model/Remote.lean`, `Model/Seek.lean`.
-/
import OrasModel.Model.Remote
import OrasModel.Model.Seek
import OrasModel.Proofs.RemoteSem
import OrasModel.Proofs.Seek
import OrasModel.Gen.Facts
namespace Oras.Props.C13
open Oras Oras.Remote

section
variable {Body Dig : Type} [DecidableEq Dig]

/-! ### Responses that contradict the request are refused -/

/-- `verifyContentDigest` accepts only an absent header or the expected digest. -/
theorem c13_verifyContentDigest (r : Resp Body Dig) (e : Dig) :
    verifyContentDigest r e = .ok () ↔ (r.dcd = .absent ∨ r.dcd = .valid e) := by
  unfold verifyContentDigest
  cases h : r.dcd with
  | absent => simp
  | invalid => simp
  | valid d =>
    by_cases hd : d = e
    · subst hd; simp
    · simp only [hd, if_false, reduceCtorEq, false_or, false_iff]
      intro hc; injection hc with hc; exact hd hc

/-- **A descriptor generated from a manifest response never contradicts the request or
    the response**: it carries the response's media type and length; its digest is the
    requested digest when one was requested, the header's digest when the header is
    present, and otherwise (GET only) the digest of the body actually received. -/
theorem c13_manifest_desc_consistent (cx : Ctx Body Dig) (isHead : Bool) (refDigest : Option Dig)
    (r : Resp Body Dig) (d : Desc Dig) (h : genManifestDesc cx isHead refDigest r = .ok d) :
    r.ctype = some d.mt ∧ r.clen = some d.size ∧
    (∀ q, refDigest = some q → d.dig = q) ∧
    (∀ hd, r.dcd = .valid hd → d.dig = hd) ∧
    r.dcd ≠ .invalid ∧
    (r.dcd = .absent → isHead = true → refDigest = some d.dig) ∧
    (r.dcd = .absent → isHead = false → ∃ b, r.body = some b ∧ d.dig = cx.H b) :=
  Proofs.Remote.genManifestDesc_ok cx isHead refDigest r d h

/-- Same for blobs (`generateBlobDescriptor`): the digest is the requested one, the header
    — when present — agrees with it, the size is the response's length. -/
theorem c13_blob_desc_consistent (r : Resp Body Dig) (q : Dig) (d : Desc Dig)
    (h : genBlobDesc r q = .ok d) :
    d.dig = q ∧ r.clen = some d.size ∧ (r.dcd = .absent ∨ r.dcd = .valid q) :=
  Proofs.Remote.genBlobDesc_ok r q d h

/-- `Fetch` by descriptor hands out a body only if length, digest header and (manifests)
    media type of the response agree with the descriptor. -/
theorem c13_fetch_checks (t : Desc Dig) (r : Resp Body Dig) :
    (blobFetchCheck t r = .ok () →
      (∀ n, r.clen = some n → n = t.size) ∧ (r.dcd = .absent ∨ r.dcd = .valid t.dig)) ∧
    (manFetchCheck t r = .ok () →
      r.ctype = some t.mt ∧ (∀ n, r.clen = some n → n = t.size) ∧ (r.dcd = .absent ∨ r.dcd = .valid t.dig)) :=
  ⟨Proofs.Remote.blobFetchCheck_ok t r, Proofs.Remote.manFetchCheck_ok t r⟩

/-- **Every single-field corruption that contradicts the request makes the call fail**, for
    every registry state, profile and call that reads by descriptor or by digest: `Fetch`,
    `Exists`/`Resolve` by digest, `FetchReference` by digest — on either store. -/
theorem c13_corruption_rejected (cx : Ctx Body Dig) (p : Prof) (g : Reg Body Dig) (rs : RState)
    (repo : String) (t : Desc Dig) (c : Corrupt Dig) :
    (contradicts c (some t.dig) (some t.size) none = true →
      ∃ e, (fetchBlob cx p (some c) g rs repo t).res = .err e) ∧
    (contradicts c (some t.dig) (some t.size) (some t.mt) = true →
      ∃ e, (fetchManifest cx p (some c) g rs repo t).res = .err e) ∧
    (contradicts c (some t.dig) none none = true →
      (∃ e, (resolveBlob cx p (some c) g rs repo t.dig).res = .err e) ∧
      (∃ e, (resolveManifest cx p (some c) g rs repo (.dig t.dig)).res = .err e) ∧
      (∃ e, (fetchRefBlob cx p (some c) g rs repo t.dig).res = .err e) ∧
      (∃ e, (fetchRefManifest cx p (some c) g rs repo (.dig t.dig)).res = .err e)) :=
  Proofs.Remote.corruption_rejected cx p g rs repo t c

/-! ### The Repository as a content store with tags -/

/-- The registry invariant: content is filed under the digest of its bytes.  It holds of
    the empty registry and is kept by every exchange, hence by every call. -/
theorem c13_registry_invariant (cx : Ctx Body Dig) (p : Prof) (tr : List (Req Body Dig)) :
    Proofs.Remote.RegInv cx (Proofs.Remote.replay cx p Reg.empty tr) :=
  Proofs.Remote.regInv_replay cx p tr _ (Proofs.Remote.regInv_empty cx)

/-- **Fetch by descriptor is a map lookup**: for every registry state and profile, a blob
    fetch returns exactly the stored body (seekable iff the registry serves ranges) when the
    digest is stored with the described size, not-found when it is absent, and an error when
    the descriptor's size is not the stored one; it changes nothing. -/
theorem c13_fetch_blob (cx : Ctx Body Dig) (p : Prof) (g : Reg Body Dig) (rs : RState) (repo : String) (t : Desc Dig) :
    (fetchBlob cx p none g rs repo t).reg = g ∧ (fetchBlob cx p none g rs repo t).rs = rs ∧
    (fetchBlob cx p none g rs repo t).res =
      (match alookup (g.repos repo).blobs t.dig with
       | none => .err .notFound
       | some b => if cx.len b ≠ t.size then .err .lengthMismatch else .body b p.rg) :=
  Proofs.Remote.fetchBlob_sem cx p g rs repo t

/-- Same for manifests, where the stored media type must be the described one as well. -/
theorem c13_fetch_manifest (cx : Ctx Body Dig) (p : Prof) (g : Reg Body Dig) (rs : RState) (repo : String) (t : Desc Dig) :
    (fetchManifest cx p none g rs repo t).reg = g ∧ (fetchManifest cx p none g rs repo t).rs = rs ∧
    (fetchManifest cx p none g rs repo t).res =
      (match alookup (g.repos repo).mans t.dig with
       | none => .err .notFound
       | some (mt, b) =>
         if mt ≠ t.mt then .err .mediaTypeMismatch
         else if cx.len b ≠ t.size then .err .lengthMismatch else .body b false) :=
  Proofs.Remote.fetchManifest_sem cx p g rs repo t

/-- **What was pushed is fetched back**: a blob push succeeds exactly when the content
    matches the descriptor, and then a fetch of that descriptor returns that very body. -/
theorem c13_push_fetch_blob (cx : Ctx Body Dig) (p : Prof) (g : Reg Body Dig) (rs rs' : RState) (repo : String)
    (d : Desc Dig) (b : Body) :
    ((pushBlob cx p g rs repo d b).res = .ok ↔ (cx.H b = d.dig ∧ cx.len b = d.size)) ∧
    ((pushBlob cx p g rs repo d b).res = .ok →
      (fetchBlob cx p none (pushBlob cx p g rs repo d b).reg rs' repo d).res = .body b p.rg) := by
  refine ⟨⟨fun h => ⟨(Proofs.Remote.pushBlob_ok cx p g rs repo d b h).1, (Proofs.Remote.pushBlob_ok cx p g rs repo d b h).2.1⟩,
           fun h => Proofs.Remote.pushBlob_complete cx p g rs repo d b h.1 h.2⟩, ?_⟩
  intro h
  obtain ⟨_, hl, hs⟩ := Proofs.Remote.pushBlob_ok cx p g rs repo d b h
  rw [(Proofs.Remote.fetchBlob_sem cx p _ rs' repo d).2.2, hs]
  simp [hl]

/-- Manifests: after a successful `Push` (reference = the digest) a `Fetch` of the same
    descriptor returns the pushed body; after a successful `PushReference` of matching
    content, `FetchReference` of the tag returns the descriptor and the body. -/
theorem c13_push_fetch_manifest (cx : Ctx Body Dig) (p : Prof) (g : Reg Body Dig) (rs rs' : RState) (repo : String)
    (d : Desc Dig) (b : Body) :
    ((pushManifest cx p g rs repo d b (.dig d.dig)).res = .ok →
      (fetchManifest cx p none (pushManifest cx p g rs repo d b (.dig d.dig)).reg rs' repo d).res = .body b false) ∧
    (∀ t, cx.H b = d.dig → Proofs.Remote.RegInv cx g → (pushManifest cx p g rs repo d b (.tag t)).res = .ok →
      (fetchRefManifest cx p none (pushManifest cx p g rs repo d b (.tag t)).reg rs' repo (.tag t)).res
        = .descBody d b false) := by
  constructor
  · intro h
    obtain ⟨hs, _, hH, hl⟩ := Proofs.Remote.pushManifest_ok cx p g rs repo d b _ h
    rw [hH rfl] at hs
    rw [(Proofs.Remote.fetchManifest_sem cx p _ rs' repo d).2.2, hs]
    simp [hl]
  · intro t hH hinv h
    obtain ⟨hs, ht, _, hl⟩ := Proofs.Remote.pushManifest_ok cx p g rs repo d b _ h
    have hinv' : Proofs.Remote.RegInv cx (pushManifest cx p g rs repo d b (.tag t)).reg := by
      rw [Proofs.Remote.pushManifest_faithful cx p g rs repo d b (.tag t)]
      exact Proofs.Remote.regInv_replay cx p _ g hinv
    rw [(Proofs.Remote.fetchRefManifest_sem cx p _ rs' repo (.tag t) hinv').2.2]
    unfold Proofs.Remote.manAt
    simp only [resolveRef, ht t rfl, Option.bind, hs, Option.map]
    rw [hH, hl]

/-- **Exists and Resolve reflect the registry's state.**  `Exists` is `true` exactly for
    stored digests; `Resolve` of a digest, or of a tag when the registry sends digest
    headers, returns the stored descriptor, and not-found for an absent reference. -/
theorem c13_exists_resolve (cx : Ctx Body Dig) (p : Prof) (g : Reg Body Dig) (rs : RState) (repo : String)
    (d : Dig) (ref : Ref Dig) :
    (existsOf (resolveBlob cx p none g rs repo d)).res = .bool (alookup (g.repos repo).blobs d).isSome ∧
    (existsOf (resolveManifest cx p none g rs repo (.dig d))).res = .bool (alookup (g.repos repo).mans d).isSome ∧
    (resolveManifest cx p none g rs repo ref).res =
      (match Proofs.Remote.manAt g repo ref with
       | none => .err .notFound
       | some (d, mt, b) =>
         match ref with
         | .dig _ => .desc ⟨mt, d, cx.len b⟩
         | .tag _ => if p.dh then .desc ⟨mt, d, cx.len b⟩ else .err .missingDigestHeader) :=
  ⟨(Proofs.Remote.exists_sem cx p g rs repo d).1, (Proofs.Remote.exists_sem cx p g rs repo d).2,
   (Proofs.Remote.resolveManifest_sem cx p g rs repo ref).2.2⟩

/-- Finding F15, stated about the model: against a registry that omits
    `Docker-Content-Digest`, `Resolve` of an existing tag fails although the registry holds
    the manifest (`FetchReference` of the same tag succeeds, `c13_fetchref`). -/
theorem c13_resolve_tag_needs_digest_header (cx : Ctx Body Dig) (p : Prof) (g : Reg Body Dig) (rs : RState)
    (repo t : String) (hdh : p.dh = false) (v : Dig × String × Body)
    (h : Proofs.Remote.manAt g repo (.tag t) = some v) :
    (resolveManifest cx p none g rs repo (.tag t)).res = .err .missingDigestHeader := by
  rw [(Proofs.Remote.resolveManifest_sem cx p g rs repo (.tag t)).2.2, h]
  obtain ⟨d, mt, b⟩ := v
  simp [hdh]

/-- `FetchReference` returns descriptor and body of what the registry holds, with or
    without digest headers. -/
theorem c13_fetchref (cx : Ctx Body Dig) (p : Prof) (g : Reg Body Dig) (rs : RState) (repo : String)
    (ref : Ref Dig) (d : Dig) (hinv : Proofs.Remote.RegInv cx g) :
    (fetchRefManifest cx p none g rs repo ref).res =
      (match Proofs.Remote.manAt g repo ref with
       | none => .err .notFound
       | some (d, mt, b) => .descBody ⟨mt, d, cx.len b⟩ b false) ∧
    (fetchRefBlob cx p none g rs repo d).res =
      (match alookup (g.repos repo).blobs d with
       | none => .err .notFound
       | some b => .descBody ⟨octet, d, cx.len b⟩ b p.rg) :=
  ⟨(Proofs.Remote.fetchRefManifest_sem cx p g rs repo ref hinv).2.2, (Proofs.Remote.fetchRefBlob_sem cx p g rs repo d).2.2⟩

/-- `Delete` removes exactly the named entry; an absent one is not-found and nothing changes. -/
theorem c13_delete (cx : Ctx Body Dig) (p : Prof) (g : Reg Body Dig) (rs : RState) (repo : String) (t : Desc Dig) :
    (match alookup (g.repos repo).blobs t.dig with
     | none => (deleteRaw cx p none g rs repo t false).res = .err .notFound ∧
               (deleteRaw cx p none g rs repo t false).reg = g
     | some _ => (deleteRaw cx p none g rs repo t false).res = .ok ∧
               alookup ((deleteRaw cx p none g rs repo t false).reg.repos repo).blobs t.dig = none) ∧
    (match alookup (g.repos repo).mans t.dig with
     | none => (deleteRaw cx p none g rs repo t true).res = .err .notFound ∧
               (deleteRaw cx p none g rs repo t true).reg = g
     | some _ => (deleteRaw cx p none g rs repo t true).res = .ok ∧
               alookup ((deleteRaw cx p none g rs repo t true).reg.repos repo).mans t.dig = none) :=
  Proofs.Remote.deleteRaw_sem cx p g rs repo t

/-- `Mount`: whether the registry mounts or the client falls back to pull-and-push, the
    source repository's blob ends up in the target; an absent source is not-found. -/
theorem c13_mount (cx : Ctx Body Dig) (p : Prof) (g : Reg Body Dig) (rs : RState) (repo src : String)
    (d : Desc Dig) (hinv : Proofs.Remote.RegInv cx g) (hne : src ≠ repo) :
    (∀ b, alookup (g.repos src).blobs d.dig = some b → cx.len b = d.size →
        (mountBlob cx p g rs repo d src).res = .ok ∧
        alookup ((mountBlob cx p g rs repo d src).reg.repos repo).blobs d.dig = some b) ∧
    (alookup (g.repos src).blobs d.dig = none →
        (mountBlob cx p g rs repo d src).res = .err .notFound ∧
        ((mountBlob cx p g rs repo d src).reg.repos repo).blobs = (g.repos repo).blobs) :=
  Proofs.Remote.mountBlob_sem cx p g rs repo src d hinv hne

/-- **Every request is one the specification allows** (at the model's level: a body is
    always sent with the length it declares), for pushes, tagging and mounting. -/
theorem c13_requests_allowed (cx : Ctx Body Dig) (p : Prof) (g : Reg Body Dig) (rs : RState) (repo src t : String)
    (d : Desc Dig) (b : Body) (ref : Ref Dig) :
    (∀ q ∈ (pushBlob cx p g rs repo d b).trace, Allowed cx q = true) ∧
    (∀ q ∈ (pushManifest cx p g rs repo d b ref).trace, Allowed cx q = true) ∧
    (∀ q ∈ (tagManifest cx p none g rs repo d t).trace, Allowed cx q = true) ∧
    (∀ q ∈ (mountBlob cx p g rs repo d src).trace, Allowed cx q = true) :=
  ⟨Proofs.Remote.allowed_pushBlob cx p g rs repo d b, Proofs.Remote.allowed_pushManifest cx p g rs repo d b ref,
   Proofs.Remote.allowed_tagManifest cx p g rs repo d t, Proofs.Remote.allowed_mountBlob cx p g rs repo src d⟩

/-- Routing is by media type alone, so a descriptor is pushed to and fetched from the same
    end-point (`Repository.blobStore`). -/
theorem c13_routing (cx : Ctx Body Dig) (mts : List String) (p : Prof) (g : Reg Body Dig) (rs : RState)
    (repo : String) (d : Desc Dig) (b : Body) :
    (isManifest mts d.mt = true →
      repoPush cx mts p g rs repo d b = pushManifest cx p g rs repo d b (.dig d.dig) ∧
      repoFetch cx mts p none g rs repo d = fetchManifest cx p none g rs repo d) ∧
    (isManifest mts d.mt = false →
      repoPush cx mts p g rs repo d b = pushBlob cx p g rs repo d b ∧
      repoFetch cx mts p none g rs repo d = fetchBlob cx p none g rs repo d) := by
  constructor <;> intro h <;> simp [repoPush, repoFetch, h]

end

/-! ### Seek on blob readers -/

/-- **Read/Seek on a returned blob behave as on the bytes themselves**: for every content
    and every sequence of Read, Seek (any offset, any whence, valid or not) and Close, the
    range-based reader over a conforming registry answers exactly like a cursor over the
    content. -/
theorem c13_seek_refines {β : Type} (content : List β) (ops : List Seek.Op) :
    Seek.run (Seek.step (Seek.goodSrv content)) (Seek.open_ content) ops =
    Seek.run (Seek.specStep content) ⟨0, false⟩ ops :=
  Proofs.Seek.sim_run content ops _ _ (Proofs.Seek.sim_open content)

/-- A failed range request leaves the reader where it was (the error is returned). -/
theorem c13_seek_failed_request {β : Type} (s : Seek.Rsc β) (offset : Int) (whence : Nat) :
    (Seek.step (fun _ => none) s (.seek offset whence)).1 = s ∨
    ∃ o, (Seek.step (fun _ => none) s (.seek offset whence)).1 = { s with off := o, rest := [] } ∧ o ≥ s.size := by
  simp only [Seek.step]
  by_cases hc : s.closed = true
  · simp [hc]
  · simp only [hc]
    cases Seek.seekTarget offset whence s.off s.size with
    | none => exact Or.inl rfl
    | some t =>
      simp only []
      by_cases hneg : t < 0
      · simp [hneg]
      · simp only [hneg, if_false]
        by_cases hsame : t.toNat = s.off
        · simp [hsame]
        · simp only [hsame, if_false]
          by_cases hbig : t.toNat ≥ s.size
          · simp only [hbig, if_true]
            exact Or.inr ⟨_, rfl, hbig⟩
          · simp [hbig]

/-! ### The model follows the current source -/

/-- Regenerated from `registry/remote/manifest.go` and `repository.go` on every run. -/
theorem c13_current_source :
    Gen.remoteDefaultManifestTypes =
      ["application/vnd.docker.distribution.manifest.v2+json",
       "application/vnd.docker.distribution.manifest.list.v2+json",
       "application/vnd.oci.image.manifest.v1+json",
       "application/vnd.oci.image.index.v1+json",
       "application/vnd.oci.artifact.manifest.v1+json"] ∧
    (∀ mt, mt ∈ Gen.remotePushIndexedTypes ↔ ociIndexed mt = true) ∧
    (∀ mt, mt ∈ Gen.remoteDeleteIndexedTypes ↔ ociIndexed mt = true) := by
  refine ⟨by decide, ?_, ?_⟩
  · intro mt
    simp only [Gen.remotePushIndexedTypes, ociIndexed, List.mem_cons, List.not_mem_nil, or_false,
      Bool.or_eq_true, decide_eq_true_eq]
    constructor
    · intro h; rcases h with h | h | h <;> simp [h]
    · intro h; rcases h with (h | h) | h <;> simp [h]
  · intro mt
    simp only [Gen.remoteDeleteIndexedTypes, ociIndexed, List.mem_cons, List.not_mem_nil, or_false,
      Bool.or_eq_true, decide_eq_true_eq]
    constructor
    · intro h; rcases h with h | h | h <;> simp [h]
    · intro h; rcases h with (h | h) | h <;> simp [h]

/-- The response-judging functions of `repository.go`, as the model was written against
    them: every `if` condition, `case` and check call, in source order.  A change to any of
    them stops this theorem from checking until the model is reviewed. -/
def expectedChecks : List (String × List String) :=
  [("blobStore.Fetch", ["if err != nil", "if err != nil", "if err != nil", "case http.StatusOK", "if size != -1 && size != target.Size", "if err != nil", "call verifyContentDigest", "if rangeUnit == \"bytes\"", "call httputil.NewReadSeekCloser", "case http.StatusNotFound"]),
   ("manifestStore.Fetch", ["if err != nil", "if err != nil", "if err != nil", "case http.StatusOK", "case http.StatusNotFound", "if err != nil", "if mediaType != target.MediaType", "if size != -1 && size != target.Size", "if err != nil", "call verifyContentDigest"]),
   ("generateBlobDescriptor", ["if mediaType == \"\"", "if size == -1", "if err != nil", "call verifyContentDigest"]),
   ("manifestStore.generateDescriptor", ["if err != nil", "if resp.ContentLength == -1", "if err == nil", "if serverHeaderDigestStr != \"\"", "if err != nil", "if len(serverHeaderDigest) == 0", "if httpMethod == http.MethodHead", "if len(refDigest) == 0", "if err != nil", "call calculateDigestFromResponse", "if len(refDigest) > 0 && refDigest != contentDigest"]),
   ("verifyContentDigest", ["if len(digestStr) == 0", "if err != nil", "if contentDigest != expected"]),
   ("Repository.delete", ["if isManifest", "if err != nil", "if err != nil", "case http.StatusAccepted", "call verifyContentDigest", "case http.StatusNotFound"]),
   ("blobStore.Mount", ["if err != nil", "if err != nil", "if resp.StatusCode == http.StatusCreated", "call verifyContentDigest", "if resp.StatusCode != http.StatusAccepted", "if getContent != nil", "call s.sibling(fromRepo).Fetch", "if err != nil", "call s.completePushAfterInitialPost"]),
   ("manifestStore.push", ["if ok", "if err != nil", "if req.GetBody != nil && req.ContentLength != expected.Size", "if ok && req.GetBody == nil", "if err != nil", "call store.Fetch", "if err != nil", "if err != nil", "if resp.StatusCode != http.StatusCreated", "call verifyContentDigest"]),
   ("blobStore.completePushAfterInitialPost", ["if err != nil", "if reqPort == \"443\" && locationHostname == reqHostname && locationPort == \"\"", "if err != nil", "if req.GetBody != nil && req.ContentLength != expected.Size", "if expected.Size == 0 && req.Body != nil && req.Body != http.NoBody", "if n > 0", "if auth != \"\"", "if err != nil", "if resp.StatusCode != http.StatusCreated"]),
   ("blobStore.FetchReference", ["if err != nil", "if err != nil", "if err != nil", "if err != nil", "if err != nil", "case http.StatusOK", "if resp.ContentLength == -1", "call s.Resolve", "call generateBlobDescriptor", "if err != nil", "if rangeUnit == \"bytes\"", "call httputil.NewReadSeekCloser", "case http.StatusNotFound"]),
   ("manifestStore.FetchReference", ["if err != nil", "if err != nil", "if err != nil", "if err != nil", "case http.StatusOK", "if resp.ContentLength == -1", "call s.Resolve", "call s.generateDescriptor", "if err != nil", "case http.StatusNotFound"])]

def expectedSeekSteps : List String :=
  ["if rsc.closed", "case io.SeekCurrent", "offset += rsc.offset", "case io.SeekStart", "case io.SeekEnd", "offset += rsc.size", "if offset < 0", "if offset == rsc.offset", "if offset >= rsc.size", "rsc.rc = http.NoBody", "rsc.offset = offset", "if err != nil", "if resp.StatusCode != http.StatusPartialContent", "rsc.rc = resp.Body", "rsc.offset = offset"]

theorem c13_checks_current : Gen.remoteChecks = expectedChecks ∧ Gen.seekSteps = expectedSeekSteps := by
  constructor <;> rfl

/-! ### Non-vacuity -/

/-- A concrete registry: content ids are their own digests; one manifest tagged `t1`. -/
def exCx : Ctx Nat Nat := { H := id, len := fun _ => 3, subj := fun _ => none }
def exReg (p : Prof) : Reg Nat Nat :=
  (pushManifest exCx p Reg.empty .unknown "a/b" ⟨"application/vnd.oci.image.manifest.v1+json", 7, 3⟩ 7 (.tag "t1")).reg

example : (pushManifest exCx ⟨false, false, false, false⟩ Reg.empty .unknown "a/b"
    ⟨"application/vnd.oci.image.manifest.v1+json", 7, 3⟩ 7 (.tag "t1")).res = .ok := by rfl
example : Proofs.Remote.manAt (exReg ⟨false, false, false, false⟩) "a/b" (.tag "t1") =
    some (7, "application/vnd.oci.image.manifest.v1+json", 7) := by decide
example : (resolveManifest exCx ⟨false, false, false, false⟩ none (exReg ⟨false, false, false, false⟩) .unknown "a/b" (.tag "t1")).res
    = .err .missingDigestHeader := by rfl
example : (resolveManifest exCx ⟨false, true, false, false⟩ none (exReg ⟨false, true, false, false⟩) .unknown "a/b" (.tag "t1")).res
    = .desc ⟨"application/vnd.oci.image.manifest.v1+json", 7, 3⟩ := by rfl
example : contradicts (.dcd (.valid 9) : Corrupt Nat) (some 7) (some 3) none = true := by decide

end Oras.Props.C13
