/-
  C18 — The credentials file store round-trips secrets and never damages the config file.
  Property theorems only.  Model: `Model/Cred.lean` (+ `Model/CrashFS.lean` style save).
-/
import OrasModel.Model.Cred
import OrasModel.Proofs.Ref
namespace Oras.Props.C18
open Oras

/-- `strings.Cut` inverts the `user:password` concatenation exactly when the user name has
    no colon — empty parts and colons in the password included. -/
theorem c18_cut (u p : Str) (h : ':' ∉ u) : splitFirst ':' (u ++ ':' :: p) = some (u, p) :=
  splitFirst_append u p h

/-- **Round trip**: storing a credential and reading it back returns the same user name,
    password, refresh token and access token — for every credential whose user name has no
    colon (the others are rejected by `Put`), every address, every pre-existing document. -/
theorem c18_roundtrip (c : CredCfg) (addr : Str) (cr : Cred) (h : ':' ∉ cr.username) :
    (c.put addr cr).2 = .ok () ∧ (c.put addr cr).1.get addr = some cr := by
  unfold CredCfg.put
  simp only [h, if_false, true_and]
  unfold CredCfg.get CredCfg.lookup
  simp only [List.find?, decide_true, Option.map_some]
  unfold credOfEntry entryOfCred encodeAuth
  by_cases he : cr.username = [] ∧ cr.password = []
  · simp only [he, and_self, if_true]
    obtain ⟨u, p, r, a⟩ := cr
    simp only at he
    obtain ⟨h1, h2⟩ := he
    subst h1 h2
    rfl
  · simp only [he, if_false]
    rw [c18_cut _ _ h]

/-- A user name with a colon is refused and nothing changes. -/
theorem c18_colon_rejected (c : CredCfg) (addr : Str) (cr : Cred) (h : ':' ∈ cr.username) :
    c.put addr cr = (c, .error .badFormat) := by
  simp [CredCfg.put, h]

/-- **Everything else is preserved**: every other registry's entry (with its unknown
    fields) and every other top-level key is untouched by `Put` and by `Delete`. -/
theorem c18_others_preserved (c : CredCfg) (addr other : Str) (cr : Cred) (hne : other ≠ addr) :
    (c.put addr cr).1.lookup other = c.lookup other ∧ (c.put addr cr).1.others = c.others ∧
    (c.delete addr).lookup other = c.lookup other ∧ (c.delete addr).others = c.others := by
  have key : ∀ l : List (Str × AuthEntry),
      (l.filter (fun e => e.1 ≠ addr)).find? (fun e => e.1 = other) = l.find? (fun e => e.1 = other) := by
    intro l
    induction l with
    | nil => rfl
    | cons e es ih =>
      rw [List.filter_cons]
      by_cases h1 : e.1 = addr
      · have : ¬ e.1 = other := by rw [h1]; exact fun h => hne h.symm
        simp only [h1, ne_eq, not_true_eq_false, decide_false, Bool.false_eq_true, if_false]
        rw [List.find?_cons]
        simp only [this, decide_false]
        exact ih
      · simp only [ne_eq, h1, not_false_eq_true, decide_true, if_true]
        rw [List.find?_cons, List.find?_cons, ih]
  unfold CredCfg.put CredCfg.delete CredCfg.lookup
  by_cases hc : ':' ∈ cr.username
  · simp only [hc, if_true, true_and, and_true]
    rw [key]
  · simp only [hc, if_false, true_and, and_true]
    have : ¬ addr = other := fun h => hne h.symm
    refine ⟨?_, ?_⟩
    · rw [List.find?_cons]
      simp only [this, decide_false]
      rw [key]
    · rw [key]

/-- **Delete removes just that entry**: the exact key is gone. -/
theorem c18_delete_only_that (c : CredCfg) (addr : Str) : (c.delete addr).lookup addr = none := by
  unfold CredCfg.delete CredCfg.lookup
  have : (c.auths.filter (fun e => e.1 ≠ addr)).find? (fun e => e.1 = addr) = none := by
    apply List.find?_eq_none.mpr
    intro e he
    simp only [List.mem_filter, ne_eq, decide_not, Bool.not_eq_eq_eq_not, Bool.not_true,
      decide_eq_false_iff_not] at he
    simpa using he.2
  simp [this]

/-- Saving is temp-file + rename: at every crash point the config file is the old complete
    document or the new one (the script is create, chmod 0600, write, rename). -/
inductive SaveSys where | createTemp | chmodTemp | writeTemp | rename
  deriving DecidableEq

def applySave {α : Type} (new : α) (file : α) : SaveSys → α
  | .rename => new
  | _ => file

theorem c18_atomic {α : Type} (old new : α) (k : Nat) :
    let script := [SaveSys.createTemp, .chmodTemp, .writeTemp, .rename]
    (script.take k).foldl (applySave new) old = old ∨ (script.take k).foldl (applySave new) old = new := by
  match k with
  | 0 => left; rfl
  | 1 => left; rfl
  | 2 => left; rfl
  | 3 => left; rfl
  | k + 4 => right; simp [applySave]

/-- Non-vacuity: colons in the password, an empty user name, a legacy URL key. -/
example :
    let c : CredCfg := ⟨[("https://legacy.io/v1/".toList, ⟨some "a:b".toList, [], [], [], [], 7⟩)], [("credsStore".toList, 3)]⟩
    (c.put "r.io".toList ⟨"u".toList, "p:q:r".toList, "rt".toList, []⟩).1.get "r.io".toList
        = some ⟨"u".toList, "p:q:r".toList, "rt".toList, []⟩ ∧
    (c.put "r.io".toList ⟨[], "onlypass".toList, [], []⟩).1.get "r.io".toList = some ⟨[], "onlypass".toList, [], []⟩ ∧
    c.get "legacy.io".toList = some ⟨"a".toList, "b".toList, [], []⟩ ∧
    c.get "other.io".toList = some Cred.empty := by
  decide

end Oras.Props.C18
