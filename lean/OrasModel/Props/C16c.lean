/-
  C16, continued — the single-context cache flavour (`Model/AuthFb.lean`): the same three
  theorems as for the shared cache.  Same namespace as `Props/C16.lean`.
-/
import OrasModel.Props.C16
import OrasModel.Model.AuthFb
namespace Oras.Props.C16
open Oras

theorem getTokenF_host {c : ACache} (hc : CacheInv c) {h : Host} {s : AScheme} {k : ScopeKey} {t : Sec}
    (hg : c.getTokenF h s k = some t) : t.host = h := by
  unfold ACache.getTokenF at hg
  cases h1 : c.getToken h s k with
  | some t' => rw [h1] at hg; injection hg with hg; subst hg; exact getToken_host hc h1
  | none => rw [h1] at hg; exact getToken_host hc hg

theorem cacheInv_setF {c : ACache} (hc : CacheInv c) (h : Host) (s : AScheme) (k : ScopeKey) (t : Sec)
    (ht : t.host = h) : CacheInv (c.setF h s k t) :=
  cacheInv_set (cacheInv_set hc h s k t ht) h s 0 t ht

/-- **No cross-host secrets, one `Do`, single-context cache**: with a cache whose tokens sit under their own
    hosts, every request `Do` emits that carries a secret carries a secret of the request's
    own registry host, addressed to that host — or carries that host's password / refresh
    token to the realm that host's own challenge advertised.  The network's replies are
    arbitrary. -/
theorem c16_single_no_cross_host (c : ACache) (hc : CacheInv c) (i : DoIn) :
    (∀ o ∈ (authFlowF c i).1, OutOk i o) ∧ CacheInv (authFlowF c i).2 := by
  have h1 : OutOk i ⟨i.host, (firstAttemptF c i).1, .registry⟩ := by
    unfold firstAttemptF OutOk
    cases c.entry i.host with
    | none => trivial
    | some e =>
      cases hs : e.scheme
      · simp only [hs]
        cases hg : c.getTokenF i.host .basic 0 with
        | none => trivial
        | some t => exact ⟨getTokenF_host hc hg, trivial⟩
      · simp only [hs]
        cases hg : c.getTokenF i.host .bearer i.hintKey with
        | none => trivial
        | some t => exact ⟨getTokenF_host hc hg, trivial⟩
  have hretryOk : ∀ (ak : Option ScopeKey) (key : ScopeKey), ∀ o ∈ (retryAttemptF c i ak key).1, OutOk i o := by
    intro ak key
    unfold retryAttemptF
    split
    · cases hg : c.getTokenF i.host .bearer key with
      | none => intro o ho; cases ho
      | some t =>
        intro o ho
        simp only [List.mem_singleton] at ho
        subst ho
        exact ⟨getTokenF_host hc hg, rfl⟩
    · intro o ho; cases ho
  unfold authFlowF
  simp only
  cases hr1 : i.r1 with
  | final => exact ⟨by intro o ho; simp at ho; subst ho; exact h1, hc⟩
  | unknown => exact ⟨by intro o ho; simp at ho; subst ho; exact h1, hc⟩
  | basic =>
    simp only
    split
    · refine ⟨?_, cacheInv_setF hc _ _ _ _ rfl⟩
      intro o ho
      simp only [List.mem_cons, List.mem_singleton, List.not_mem_nil, or_false] at ho
      rcases ho with ho | ho
      · subst ho; exact h1
      · subst ho; exact ⟨rfl, rfl⟩
    · exact ⟨by intro o ho; simp at ho; subst ho; exact h1, hc⟩
  | bearer realm key =>
    simp only
    have hR := hretryOk (firstAttemptF c i).2 key
    split
    · refine ⟨?_, hc⟩
      intro o ho
      simp only [List.mem_cons] at ho
      rcases ho with ho | ho
      · subst ho; exact h1
      · exact hR o ho
    · split
      · refine ⟨?_, cacheInv_setF hc _ _ _ _ rfl⟩
        intro o ho
        simp only [List.mem_cons, List.mem_append, List.mem_singleton, List.not_mem_nil, or_false] at ho
        rcases ho with (ho | ho) | ho
        · subst ho; exact h1
        · exact hR o ho
        · subst ho; exact ⟨rfl, rfl⟩
      · -- token fetch to the advertised realm
        have fetchOk : OutOk i ⟨realm, carriedSecret i, .tokenFetch⟩ := by
          unfold OutOk carriedSecret
          split
          · trivial
          · rename_i s hs
            split at hs
            · cases hs
            · split at hs
              · injection hs with hs; subst hs
                exact ⟨rfl, Or.inl rfl, key, hr1⟩
              · split at hs
                · injection hs with hs; subst hs
                  exact ⟨rfl, Or.inr rfl, key, hr1⟩
                · injection hs with hs; subst hs
                  exact ⟨rfl, Or.inl rfl, key, hr1⟩
        cases hf : i.fetchOk with
        | none =>
          refine ⟨?_, hc⟩
          intro o ho
          simp only [List.mem_cons, List.mem_append, List.mem_singleton, List.not_mem_nil, or_false] at ho
          rcases ho with (ho | ho) | ho
          · subst ho; exact h1
          · exact hR o ho
          · subst ho; exact fetchOk
        | some id =>
          refine ⟨?_, cacheInv_setF hc _ _ _ _ rfl⟩
          intro o ho
          simp only [List.mem_cons, List.mem_append, List.mem_singleton, List.not_mem_nil, or_false] at ho
          rcases ho with (ho | ho) | ho | ho
          · subst ho; exact h1
          · exact hR o ho
          · subst ho; exact fetchOk
          · subst ho; exact ⟨rfl, rfl⟩

/-- **No cross-host secrets, every history, single-context cache**: any sequence of `Do` calls to any hosts,
    sharing one cache that starts empty, with arbitrary replies: every emitted request is
    fine, and the cache invariant holds throughout. -/
theorem c16_single_history (calls : List DoIn) :
    ∀ (c : ACache), CacheInv c →
      let run := calls.foldl (fun (acc : List (DoIn × Out) × ACache) i =>
        let r := authFlowF acc.2 i
        (acc.1 ++ r.1.map (fun o => (i, o)), r.2)) ([], c)
      (∀ io ∈ run.1, OutOk io.1 io.2) ∧ CacheInv run.2 := by
  intro c hc
  suffices h : ∀ (acc : List (DoIn × Out) × ACache), (∀ io ∈ acc.1, OutOk io.1 io.2) → CacheInv acc.2 →
      (∀ io ∈ (calls.foldl (fun (acc : List (DoIn × Out) × ACache) i =>
          let r := authFlowF acc.2 i
          (acc.1 ++ r.1.map (fun o => (i, o)), r.2)) acc).1, OutOk io.1 io.2) ∧
      CacheInv (calls.foldl (fun (acc : List (DoIn × Out) × ACache) i =>
          let r := authFlowF acc.2 i
          (acc.1 ++ r.1.map (fun o => (i, o)), r.2)) acc).2 from
    h ([], c) (by intro io hio; cases hio) hc
  induction calls with
  | nil => intro acc h1 h2; exact ⟨h1, h2⟩
  | cons i rest ih =>
    intro acc h1 h2
    simp only [List.foldl_cons]
    obtain ⟨ho, hc'⟩ := c16_single_no_cross_host acc.2 h2 i
    apply ih
    · intro io hio
      rcases List.mem_append.mp hio with h | h
      · exact h1 io h
      · obtain ⟨o, hom, rfl⟩ := List.mem_map.mp h
        exact ho o hom
    · exact hc'

/-- **Bounded, single-context cache**: at most three sends to the registry and one token fetch per `Do`. -/
theorem c16_single_bounded (c : ACache) (i : DoIn) :
    ((authFlowF c i).1.filter (·.kind = .registry)).length ≤ 3 ∧
    ((authFlowF c i).1.filter (·.kind = .tokenFetch)).length ≤ 1 := by
  have hr : ∀ (ak : Option ScopeKey) (key : ScopeKey),
      ((retryAttemptF c i ak key).1.filter (·.kind = .registry)).length ≤ 1 ∧
      ((retryAttemptF c i ak key).1.filter (·.kind = .tokenFetch)).length = 0 := by
    intro ak key
    unfold retryAttemptF
    split
    · cases c.getTokenF i.host .bearer key <;> simp
    · simp
  unfold authFlowF
  simp only
  cases i.r1 with
  | final => simp
  | unknown => simp
  | basic => simp only; split <;> simp
  | bearer realm key =>
    simp only
    obtain ⟨h1, h2⟩ := hr (firstAttemptF c i).2 key
    split
    · simp only [List.filter_cons, decide_true, if_true, List.length_cons, reduceCtorEq, decide_false,
        Bool.false_eq_true, if_false]
      omega
    · split
      · simp only [List.filter_cons, List.filter_append, decide_true, if_true, List.length_cons,
          List.length_append, reduceCtorEq, decide_false, Bool.false_eq_true, if_false, List.filter_nil,
          List.length_nil]
        omega
      · cases i.fetchOk <;>
          simp only [List.filter_cons, List.filter_append, decide_true, if_true, List.length_cons,
            List.length_append, reduceCtorEq, decide_false, Bool.false_eq_true, if_false, List.filter_nil,
            List.length_nil] <;> omega

/-- Non-vacuity: after a Bearer flow the token sits under the scope key and under the
    per-registry entry; a later request with other scope hints gets it on its first send —
    the behaviour that sets this cache apart — and still only to its own host. -/
example :
    let i1 : DoIn := ⟨1, 5, ⟨true, false, false⟩, false, .bearer 9 5, .final, some 77⟩
    let r1 := authFlowF [] i1
    let i2 : DoIn := ⟨1, 6, ⟨true, false, false⟩, false, .final, .final, none⟩
    let i3 : DoIn := ⟨2, 6, ⟨true, false, false⟩, false, .final, .final, none⟩
    r1.1 = [⟨1, none, .registry⟩, ⟨9, some (.pw 1), .tokenFetch⟩, ⟨1, some (.tok 1 77), .registry⟩] ∧
    (authFlowF r1.2 i2).1 = [⟨1, some (.tok 1 77), .registry⟩] ∧
    (authFlow r1.2 i2).1 = [⟨1, none, .registry⟩] ∧
    (authFlowF r1.2 i3).1 = [⟨2, none, .registry⟩] := by
  decide

end Oras.Props.C16
