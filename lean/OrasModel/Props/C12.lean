/-
  C12 — Files and directories added to a file store come back identical.
  Property theorems only, on the header/naming model (`Model/TarTree.lean`).  The tar and
  gzip wire formats, and real file systems, are exercised by the harness, not modelled.
-/
import OrasModel.Model.TarTree
import OrasModel.Props.C11
namespace Oras.Props.C12
open Oras Oras.Props.C11

/-- Relative clean paths: no empty, `.` or `..` element. -/
theorem cleanStep_rel_nodots (stack : List Seg) (seg : Seg) (hs : NoDots [seg]) :
    cleanStep false stack seg = seg :: stack := by
  have h := hs seg List.mem_cons_self
  unfold cleanStep
  simp [h.1, h.2.1, h.2.2]

theorem cleanSegs_id (l : List Seg) (h : NoDots l) : cleanSegs false l = l := by
  unfold cleanSegs
  have : ∀ (stack : List Seg), l.foldl (cleanStep false) stack = l.reverse ++ stack := by
    induction l with
    | nil => intro stack; rfl
    | cons s ss ih =>
      intro stack
      simp only [List.foldl_cons]
      rw [cleanStep_rel_nodots stack s (fun x hx => by
        simp only [List.mem_singleton] at hx; subst hx; exact h x List.mem_cons_self)]
      rw [ih (fun x hx => h x (List.mem_cons_of_mem _ hx))]
      simp
  rw [this []]
  simp

theorem relSegs_append (p r : List Seg) : relSegs p (p ++ r) = r := by
  induction p with
  | nil => cases r <;> rfl
  | cons x xs ih => simp [relSegs, ih]

/-- **Naming round trip**: the name `tarDirectory` gives an entry (prefix/rel) passes the
    extraction name check against the same directory name and maps back to `rel` — for every
    prefix and relative path made of proper elements. -/
theorem c12_name_roundtrip (pfx rel : List Seg) (hp : NoDots pfx) (hr : NoDots rel) :
    resolveEntryName pfx (cleanSegs false (pfx ++ rel)) = some rel := by
  have hpr : NoDots (pfx ++ rel) := by
    intro s hs
    rcases List.mem_append.mp hs with h | h
    · exact hp s h
    · exact hr s h
  unfold resolveEntryName
  simp only [cleanSegs_id _ hpr, cleanSegs_id _ hp, relSegs_append]
  cases rel with
  | nil => simp
  | cons r rs =>
    have := (hr r List.mem_cons_self).1
    simp [this]

/-- **Entry round trip**: a regular file, directory or relative symlink comes back at the
    same relative path with the same content identity / link target, and with its mode
    (exactly when permissions are preserved, masked by the umask otherwise). -/
theorem c12_entry_roundtrip (removeTimes preserve : Bool) (umask : Nat) (pfx rel : List Seg)
    (hp : NoDots pfx) (hr : NoDots rel) (n : FsNode) :
    extractEntry preserve umask pfx (mkHeader removeTimes pfx rel n) =
      some (rel, n.kind,
        match n.kind with
        | .symlink _ => 0
        | _ => if preserve then n.perm else n.perm &&& (0o777 - (umask &&& 0o777))) := by
  unfold extractEntry
  have hname : resolveEntryName pfx (mkHeader removeTimes pfx rel n).name = some rel :=
    c12_name_roundtrip pfx rel hp hr
  rw [hname]
  cases hk : n.kind <;> simp [mkHeader, hk]

/-- **Reproducible tars**: with `TarReproducible` the header is a function of the name, the
    kind, the mode, the link target and the content only — not of timestamps or ownership. -/
theorem c12_reproducible (pfx rel : List Seg) (n m : FsNode) (hk : n.kind = m.kind) (hm : n.perm = m.perm) :
    mkHeader true pfx rel n = mkHeader true pfx rel m := by
  simp [mkHeader, hk, hm]

/-- Without it, the modification time is carried (so two trees differing only in times do
    differ in their tar): the option is what makes the descriptor time-independent. -/
theorem c12_times_matter_without_option (pfx rel : List Seg) (n : FsNode) :
    (mkHeader false pfx rel n).modTime = n.mtime ∧ (mkHeader true pfx rel n).modTime = 0 := by
  simp [mkHeader]

/-- Ownership never leaves the machine. -/
theorem c12_ownership_cleared (b : Bool) (pfx rel : List Seg) (n : FsNode) :
    (mkHeader b pfx rel n).uid = 0 ∧ (mkHeader b pfx rel n).gid = 0 := by
  simp [mkHeader]

/-! ### Whole trees -/

/-- A tree as `tarDirectory` walks it: relative path and node, in walk order. -/
abbrev Tree := List (List Seg × FsNode)

/-- The archive `tarDirectory` writes for a tree. -/
def archiveOf (removeTimes : Bool) (pfx : List Seg) (t : Tree) : List TarHeader :=
  t.map fun e => mkHeader removeTimes pfx e.1 e.2

/-- What `extractTarDirectory` creates from an archive, entry by entry (`none` = rejected). -/
def extractAll (preserve : Bool) (umask : Nat) (pfx : List Seg) (hs : List TarHeader) :
    List (Option (List Seg × NodeKind × Nat)) :=
  hs.map (extractEntry preserve umask pfx)

/-- The mode an entry comes back with. -/
def restoredPerm (preserve : Bool) (umask : Nat) (n : FsNode) : Nat :=
  match n.kind with
  | .symlink _ => 0
  | _ => if preserve then n.perm else n.perm &&& (0o777 - (umask &&& 0o777))

/-- **Whole-tree round trip**: for every tree of regular files, directories and symlinks at
    clean relative paths — any size, any nesting, any walk order — extracting the archive the
    store wrote for it recreates every entry at the same relative path with the same content
    identity / link target and the expected mode; no entry is rejected and none is invented. -/
theorem c12_tree_roundtrip (removeTimes preserve : Bool) (umask : Nat) (pfx : List Seg) (t : Tree)
    (hp : NoDots pfx) (ht : ∀ e ∈ t, NoDots e.1) :
    extractAll preserve umask pfx (archiveOf removeTimes pfx t) =
      t.map fun e => some (e.1, e.2.kind, restoredPerm preserve umask e.2) := by
  unfold extractAll archiveOf
  rw [List.map_map]
  apply List.map_congr_left
  intro e he
  simp only [Function.comp]
  rw [c12_entry_roundtrip removeTimes preserve umask pfx e.1 hp (ht e he) e.2]
  rfl

/-- **Reproducible descriptors for whole trees**: with `TarReproducible`, two trees with the
    same paths, kinds (contents, link targets) and modes give the same archive, whatever
    their timestamps and owners — hence the same digest and descriptor. -/
theorem c12_tree_reproducible (pfx : List Seg) (t u : Tree)
    (h : t.map (fun e => (e.1, e.2.kind, e.2.perm)) = u.map (fun e => (e.1, e.2.kind, e.2.perm))) :
    archiveOf true pfx t = archiveOf true pfx u := by
  unfold archiveOf
  induction t generalizing u with
  | nil =>
    cases u with
    | nil => rfl
    | cons _ _ => simp at h
  | cons e es ih =>
    cases u with
    | nil => simp at h
    | cons f fs =>
      simp only [List.map_cons, List.cons.injEq, Prod.mk.injEq] at h ⊢
      obtain ⟨⟨h1, h2, h3⟩, hrest⟩ := h
      refine ⟨?_, ih fs hrest⟩
      rw [h1]
      exact c12_reproducible pfx f.1 e.2 f.2 h2 h3

/-- Non-vacuity. -/
example :
    let n : FsNode := ⟨.file 7, 0o640, 111, 222, 1000, 1000⟩
    extractEntry false 0o022 ["data".toList] (mkHeader true ["data".toList] ["sub".toList, "f".toList] n)
      = some (["sub".toList, "f".toList], .file 7, 0o640) ∧
    resolveEntryName ["data".toList] ["other".toList, "f".toList] = none := by
  decide

end Oras.Props.C12
