/-
  C02 — Destination stays link-closed at every instant; failures surface; retry works.
  Property theorems only (safety part on the per-node system of `Model/Copy.lean`,
  in which any unfinished node may fail at any time — error before the side effect,
  error after it (`pushLate`), abort, cancellation).
-/
import OrasModel.Proofs.Copy
namespace Oras.Props.C02
open Oras

/-- **Closed at every instant, after every outcome**: every state reachable from a
    link-closed destination by any trace — with any faults, anywhere — is link-closed. -/
theorem c02_closed_always (c : CopyCfg) (hk : KeyCons c) (dst0 : List Nat) (h0 : ClosedKeys c dst0)
    (ls : List Label) (s : CopySt) (hr : run? c (CopySt.init dst0) ls = some s) :
    ClosedKeys c s.dst :=
  (copyInv_run c hk ls _ s (copyInv_init c dst0 h0) hr).closed

/-- **No push completes before the node's successors are present**: whenever a push
    (successful or failing late) is enabled in a reachable state, every successor of the
    node is already in the destination. -/
theorem c02_push_after_children (c : CopyCfg) (hk : KeyCons c) (dst0 : List Nat)
    (h0 : ClosedKeys c dst0) (ls : List Label) (s s' : CopySt) (n : Node)
    (hr : run? c (CopySt.init dst0) ls = some s)
    (hp : step? c s (.push n) = some s' ∨ step? c s (.pushLate n) = some s') :
    ∀ k ∈ c.kids n, present c s k = true := by
  have inv := copyInv_run c hk ls _ s (copyInv_init c dst0 h0) hr
  have hn : s.st n = .copying := by
    rcases hp with hp | hp <;> simp only [step?] at hp <;> split at hp <;> first | assumption | cases hp
  exact inv.copying_ready n hn

/-- A failed node never becomes done: failure is terminal, so success cannot be reported
    for a run in which a needed node failed (`retOk` requires every node idle or done). -/
theorem c02_failed_is_terminal (c : CopyCfg) (s s' : CopySt) (l : Label) (n : Node)
    (hf : s.st n = .failed) (hs : step? c s l = some s') : s'.st n = .failed := by
  cases l with
  | claim m =>
    simp only [step?] at hs; split at hs
    · rename_i h; injection hs with hs; subst hs
      by_cases e : n = m
      · subst e; rw [hf] at h; cases h
      · simp [fupd_other _ _ _ _ e, hf]
    · cases hs
  | existsT m =>
    simp only [step?] at hs; split at hs
    · rename_i h; injection hs with hs; subst hs
      by_cases e : n = m
      · subst e; rw [hf] at h; cases h.1
      · simp [fupd_other _ _ _ _ e, hf]
    · cases hs
  | existsF m =>
    simp only [step?] at hs; split at hs
    · rename_i h; injection hs with hs; subst hs
      by_cases e : n = m
      · subst e; rw [hf] at h; cases h.1
      · simp [fupd_other _ _ _ _ e, hf]
    · cases hs
  | ready m =>
    simp only [step?] at hs; split at hs
    · rename_i h; injection hs with hs; subst hs
      by_cases e : n = m
      · subst e; rw [hf] at h; cases h.1
      · simp [fupd_other _ _ _ _ e, hf]
    · cases hs
  | push m =>
    simp only [step?] at hs; split at hs
    · rename_i h; injection hs with hs; subst hs
      by_cases e : n = m
      · subst e; rw [hf] at h; cases h
      · simp [fupd_other _ _ _ _ e, hf]
    · cases hs
  | pushLate m =>
    simp only [step?] at hs; split at hs
    · rename_i h; injection hs with hs; subst hs
      by_cases e : n = m
      · subst e; simp
      · simp [fupd_other _ _ _ _ e, hf]
    · cases hs
  | fail m =>
    simp only [step?] at hs; split at hs
    · rename_i h; injection hs with hs; subst hs
      by_cases e : n = m
      · subst e; simp
      · simp [fupd_other _ _ _ _ e, hf]
    · cases hs

theorem c02_failure_surfaces (c : CopyCfg) (ls : List Label) (s s' : CopySt) (n : Node)
    (univ : List Node) (hn : n ∈ univ) (hf : s.st n = .failed) (hr : run? c s ls = some s') :
    retOk c s' univ = false := by
  have hfin : s'.st n = .failed := by
    induction ls generalizing s with
    | nil => simp [run?] at hr; subst hr; exact hf
    | cons l ls ih =>
      simp only [run?] at hr
      cases hs : step? c s l with
      | none => simp [hs] at hr
      | some s1 =>
        simp only [hs] at hr
        exact ih s1 (c02_failed_is_terminal c s s1 l n hf hs) hr
  unfold retOk
  have : (univ.all fun n => decide (s'.st n = .idle ∨ s'.st n = .done)) = false := by
    apply Bool.eq_false_iff.mpr
    intro hall
    have := List.all_eq_true.mp hall n hn
    simp [hfin] at this
  rw [this, Bool.and_false]

/-- **Success is complete**: if the run reports success, every reachable node is present
    (contrapositive: an unrecovered failure on a needed node forbids success). -/
theorem c02_success_is_complete (c : CopyCfg) (hk : KeyCons c) (dst0 : List Nat)
    (h0 : ClosedKeys c dst0) (ls : List Label) (s : CopySt) (univ : List Node)
    (hr : run? c (CopySt.init dst0) ls = some s) (hok : retOk c s univ = true) :
    ∀ n, Reachable c n → present c s n = true := by
  have inv := copyInv_run c hk ls _ s (copyInv_init c dst0 h0) hr
  have hroots : ∀ r ∈ c.roots, s.st r = .done := by
    intro r hr'
    unfold retOk at hok
    simp only [Bool.and_eq_true] at hok
    have := List.all_eq_true.mp hok.1 r hr'
    simpa using this
  intro n hn
  induction hn with
  | root hr' => exact inv.done_present _ (hroots _ hr')
  | kid _ hkk ih => exact inv.closed _ ih _ hkk

/-- **Retry works**: whatever a failed, cancelled or successful run left behind is a
    link-closed destination, hence a legitimate starting point for a fresh run, for which
    closure-on-success holds again. -/
theorem c02_retry_completes (c : CopyCfg) (hk : KeyCons c) (dst0 : List Nat) (h0 : ClosedKeys c dst0)
    (ls₁ : List Label) (s₁ : CopySt) (hr₁ : run? c (CopySt.init dst0) ls₁ = some s₁)
    (ls₂ : List Label) (s₂ : CopySt) (hr₂ : run? c (CopySt.init s₁.dst) ls₂ = some s₂)
    (hroots : ∀ r ∈ c.roots, s₂.st r = .done) :
    ∀ n, Reachable c n → present c s₂ n = true := by
  have hc := c02_closed_always c hk dst0 h0 ls₁ s₁ hr₁
  have inv := copyInv_run c hk ls₂ _ s₂ (copyInv_init c s₁.dst hc) hr₂
  intro n hn
  induction hn with
  | root hr' => exact inv.done_present _ (hroots _ hr')
  | kid _ hkk ih => exact inv.closed _ ih _ hkk

/-- Non-vacuity: a run in which node 1's push fails late (stored, error returned) and the
    parent is aborted; the destination is closed, success is not reported, and a second
    run from what was left completes. -/
example :
    let c : CopyCfg := { kids := fun n => if n = 0 then [1, 2] else [], dkey := id, roots := [0] }
    let tr₁ : List Label := [.claim 0, .existsF 0, .claim 1, .existsF 1, .ready 1, .pushLate 1, .fail 0]
    let tr₂ : List Label := [.claim 0, .existsF 0, .claim 1, .existsT 1, .claim 2, .existsF 2, .ready 2,
      .push 2, .ready 0, .push 0]
    ((run? c (CopySt.init []) tr₁).map fun s => (retOk c s [0, 1, 2], s.dst)) = some (false, [1]) ∧
    ((run? c (CopySt.init [1]) tr₂).map fun s => (retOk c s [0, 1, 2], [0, 1, 2].all (present c s)))
      = some (true, true) := by
  decide

end Oras.Props.C02
