/-
  C15 — Listings return every item exactly once and never over-read metadata.
  Property theorems only.  Model: `Model/Pages.lean`.
-/
import OrasModel.Model.Pages
import OrasModel.Proofs.Canon
import OrasModel.Proofs.Ref
namespace Oras.Props.C15
open Oras

/-- A well-formed chain of responses: every page but the last carries a next link. -/
def WellFormedChain {α : Type} : List (PageResp α) → Prop
  | [] => False
  | [p] => p.hasNext = false
  | p :: q :: rest => p.hasNext = true ∧ WellFormedChain (q :: rest)

theorem pageLoop_concat {α : Type} (pages : List (PageResp α)) (h : WellFormedChain pages) :
    ∀ (i : Nat) (acc : List (List α)),
      pageLoop none pages i acc = (acc ++ pages.map (·.items), .ok) := by
  induction pages with
  | nil => exact absurd h (by simp [WellFormedChain])
  | cons p rest ih =>
    intro i acc
    cases rest with
    | nil =>
      simp only [WellFormedChain] at h
      simp [pageLoop, h]
    | cons q rest' =>
      simp only [WellFormedChain] at h
      have step : pageLoop none (p :: q :: rest') i acc = pageLoop none (q :: rest') (i + 1) (acc ++ [p.items]) := by
        rw [pageLoop]
        simp [h.1]
      rw [step, ih h.2]
      simp

/-- **Every item exactly once, in the registry's order**: however the registry splits the
    result into pages (any number of pages, any page sizes, empty pages included), the
    concatenation of what the callback receives is the concatenation of the pages, each
    page delivered once, and the call succeeds. -/
theorem c15_concat {α : Type} (pages : List (PageResp α)) (h : WellFormedChain pages) :
    ((pageLoop none pages 0 []).1.flatten = (pages.map (·.items)).flatten) ∧
    (pageLoop none pages 0 []).2 = .ok := by
  rw [pageLoop_concat pages h 0 []]
  simp

/-- The registry side: any way of splitting the items after `last` into pages.  `sizes` are
    the sizes the registry chooses page by page (zero included: an empty page that still
    carries a next link); when it has no more sizes to choose it sends the rest.  Every page
    but the final one carries a next link. -/
def servePages {α : Type} : List Nat → List α → List (PageResp α)
  | [], l => [⟨l, false⟩]
  | s :: ss, l =>
    if l.length ≤ s then [⟨l, false⟩]
    else ⟨l.take s, true⟩ :: servePages ss (l.drop s)

theorem servePages_spec {α : Type} (sizes : List Nat) :
    ∀ l : List α, WellFormedChain (servePages sizes l) ∧ ((servePages sizes l).map (·.items)).flatten = l := by
  induction sizes with
  | nil => intro l; simp [servePages, WellFormedChain]
  | cons s ss ih =>
    intro l
    unfold servePages
    by_cases h : l.length ≤ s
    · simp [h, WellFormedChain]
    · simp only [h, if_false]
      obtain ⟨h1, h2⟩ := ih (l.drop s)
      constructor
      · -- the tail is a non-empty well-formed chain
        cases hr : servePages ss (l.drop s) with
        | nil => rw [hr] at h1; exact absurd h1 (by simp [WellFormedChain])
        | cons q rest => rw [hr] at h1; exact ⟨rfl, h1⟩
      · simp only [List.map_cons, List.flatten_cons, h2, List.take_append_drop]

/-- **Every item the registry holds after `last` is delivered exactly once, in the
    registry's order, for any way the registry splits the result into pages**: client loop
    and registry model composed. -/
theorem c15_registry_chain_complete {α : Type} (sizes : List Nat) (itemsAfterLast : List α) :
    (pageLoop none (servePages sizes itemsAfterLast) 0 []).1.flatten = itemsAfterLast ∧
    (pageLoop none (servePages sizes itemsAfterLast) 0 []).2 = .ok := by
  obtain ⟨hw, hf⟩ := servePages_spec sizes itemsAfterLast
  have := c15_concat (servePages sizes itemsAfterLast) hw
  exact ⟨by rw [this.1, hf], this.2⟩

example : (pageLoop none (servePages [2, 0, 1] [10, 20, 30, 40, 50]) 0 []).1 = [[10, 20], [], [30], [40, 50]] := by
  decide

/-- **Stops at a failing callback and returns that failure**: nothing after page `k` is
    requested or delivered. -/
theorem c15_callback_error {α : Type} (pages : List (PageResp α)) (k : Nat) (hk : k < pages.length)
    (hnext : ∀ j, j < k → (pages[j]?).map (·.hasNext) = some true) :
    ∀ (i : Nat) (acc : List (List α)),
      pageLoop (some (i + k)) pages i acc = (acc ++ (pages.take (k + 1)).map (·.items), .callbackErr) := by
  induction pages generalizing k with
  | nil => simp at hk
  | cons p rest ih =>
    intro i acc
    cases k with
    | zero => simp [pageLoop]
    | succ k =>
      have h0 : p.hasNext = true := by
        have := hnext 0 (Nat.succ_pos k)
        simpa using this
      have hne : ¬ (some (i + (k + 1)) = some i) := by
        intro e; injection e with e; omega
      simp only [pageLoop, hne, if_false, h0, if_true]
      have := ih k (by simpa using hk) (fun j hj => by
        have := hnext (j + 1) (by omega)
        simpa using this) (i + 1) (acc ++ [p.items])
      rw [show i + (k + 1) = i + 1 + k by omega, this]
      simp

/-- `last` travels with the first request only. -/
theorem c15_last_first_only (last : Str) (n : Nat) :
    ∀ j, 0 < j → j < n → (lastParams last n)[j]? = some [] := by
  intro j hj hn
  simp [lastParams, hn]
  omega

/-- **`parseLink`** accepts exactly headers of the form `<…>…` and returns the bracket
    contents. -/
theorem c15_parseLink (u rest : Str) (h : '>' ∉ u) :
    parseLink ('<' :: u ++ '>' :: rest) = .ok u := by
  simp [parseLink, splitFirst_append u rest h]

theorem c15_parseLink_rejects (link : Str) (u : Str) (h : parseLink link = .ok u) :
    ∃ rest, link = '<' :: u ++ '>' :: rest := by
  unfold parseLink at h
  cases link with
  | nil => cases h
  | cons c rest =>
    simp only at h
    by_cases hc : c = '<'
    · subst hc
      simp only [ne_eq, not_true_eq_false, if_false] at h
      cases hs : splitFirst '>' rest with
      | none => simp [hs] at h
      | some p =>
        obtain ⟨a, b⟩ := p
        simp only [hs] at h
        injection h with h
        subst h
        obtain ⟨h1, _⟩ := splitFirst_some hs
        exact ⟨b, by rw [h1]; simp⟩
    · simp [hc] at h

/-- **Never over-read**: at most `limit` bytes are taken; and with a decoder that reads one
    value and stops (`PrefixStable`), decoding the limited body gives an error or exactly
    the value the whole body decodes to — never a truncated result. -/
def PrefixStable {β γ : Type} (dec : List β → Option γ) : Prop :=
  ∀ (b : List β) (n : Nat) (v : γ), dec (b.take n) = some v → dec b = some v

theorem c15_limit {β γ : Type} (dec : List β → Option γ) (hd : PrefixStable dec) (limit : Nat) (body : List β) :
    (limitRead limit body).length ≤ limit ∧
    (dec (limitRead limit body) = none ∨ dec (limitRead limit body) = dec body) := by
  refine ⟨by simp [limitRead]; omega, ?_⟩
  cases h : dec (limitRead limit body) with
  | none => exact Or.inl rfl
  | some v => exact Or.inr (hd body limit v h).symm

/-- **OCI layout `Tags`**: sorted, duplicate-free, exactly the tags greater than `last`. -/
theorem c15_listTags (tags : List Str) (last t : Str) :
    (t ∈ listTags tags last ↔ (t ∈ tags ∧ (last = [] ∨ strLt last t = true))) ∧
    SSorted strLt (listTags tags last) := by
  unfold listTags
  refine ⟨?_, ssorted_canon strLt_strictTotal _⟩
  rw [mem_canon]
  simp only [List.mem_filter, Bool.or_eq_true, List.isEmpty_iff]

/-- Non-vacuity. -/
example :
    let pages : List (PageResp Nat) := [⟨[1, 2], true⟩, ⟨[], true⟩, ⟨[3], false⟩, ⟨[99], false⟩]
    pageLoop none pages 0 [] = ([[1, 2], [], [3]], .ok) ∧
    pageLoop (some 1) pages 0 [] = ([[1, 2], []], .callbackErr) ∧
    parseLink "</v2/x/tags/list?last=b&n=2>; rel=\"next\"".toList = .ok "/v2/x/tags/list?last=b&n=2".toList := by
  refine ⟨by rfl, by rfl, by rfl⟩

end Oras.Props.C15
