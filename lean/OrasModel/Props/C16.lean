/-
  C16 — The auth client keeps each registry's secrets and tokens to that registry.
  Property theorems only.  Model: `Model/Auth.lean` (request flow + cache),
  `Model/Scopes.lean` (CleanScopes).
-/
import OrasModel.Model.Auth
import OrasModel.Proofs.Canon
namespace Oras.Props.C16
open Oras

/-- Every cached token sits under the host it was obtained for. -/
def CacheInv (c : ACache) : Prop := ∀ p ∈ c, ∀ kt ∈ p.2.tokens, kt.2.host = p.1

theorem entry_mem {c : ACache} {h : Host} {e : CEntry} (he : c.entry h = some e) : (h, e) ∈ c := by
  unfold ACache.entry at he
  cases hf : c.find? (·.1 = h) with
  | none => simp [hf] at he
  | some p =>
    simp only [hf, Option.map_some, Option.some.injEq] at he
    have hm := List.mem_of_find?_eq_some hf
    have hk : p.1 = h := by simpa using List.find?_some hf
    obtain ⟨a, b⟩ := p
    simp only at hk he
    subst hk he
    exact hm

theorem getToken_host {c : ACache} (hc : CacheInv c) {h : Host} {s : AScheme} {k : ScopeKey} {t : Sec}
    (hg : c.getToken h s k = some t) : t.host = h := by
  unfold ACache.getToken at hg
  cases he : c.entry h with
  | none => simp [he] at hg
  | some e =>
    simp only [he] at hg
    split at hg
    · cases hf : e.tokens.find? (·.1 = k) with
      | none => simp [hf] at hg
      | some kt =>
        simp only [hf, Option.map_some, Option.some.injEq] at hg
        have := hc (h, e) (entry_mem he) kt (List.mem_of_find?_eq_some hf)
        rw [hg] at this
        exact this
    · cases hg

theorem cacheInv_set {c : ACache} (hc : CacheInv c) (h : Host) (s : AScheme) (k : ScopeKey) (t : Sec)
    (ht : t.host = h) : CacheInv (c.set h s k t) := by
  intro p hp kt hkt
  unfold ACache.set at hp
  simp only [List.mem_cons, List.mem_filter] at hp
  rcases hp with hp | ⟨hp, _⟩
  · subst hp
    simp only [List.mem_cons] at hkt
    rcases hkt with hkt | hkt
    · subst hkt; exact ht
    · cases he : c.entry h with
      | none => simp [he] at hkt
      | some e =>
        simp only [he] at hkt
        split at hkt
        · exact hc (h, e) (entry_mem he) kt (List.mem_filter.mp hkt).1
        · cases hkt
  · exact hc p hp kt hkt

/-- What one emitted request is allowed to carry. -/
def OutOk (i : DoIn) (o : Out) : Prop :=
  match o.sec with
  | none => True
  | some s =>
    s.host = i.host ∧
    match o.kind with
    | .registry => o.to = i.host
    | .tokenFetch => (s = .pw i.host ∨ s = .rt i.host) ∧ ∃ key, i.r1 = .bearer o.to key

/-- **No cross-host secrets, one `Do`**: with a cache whose tokens sit under their own
    hosts, every request `Do` emits that carries a secret carries a secret of the request's
    own registry host, addressed to that host — or carries that host's password / refresh
    token to the realm that host's own challenge advertised.  The network's replies are
    arbitrary. -/
theorem c16_no_cross_host (c : ACache) (hc : CacheInv c) (i : DoIn) :
    (∀ o ∈ (authFlow c i).1, OutOk i o) ∧ CacheInv (authFlow c i).2 := by
  have h1 : OutOk i ⟨i.host, (firstAttempt c i).1, .registry⟩ := by
    unfold firstAttempt OutOk
    cases c.entry i.host with
    | none => trivial
    | some e =>
      cases hs : e.scheme
      · simp only [hs]
        cases hg : c.getToken i.host .basic 0 with
        | none => trivial
        | some t => exact ⟨getToken_host hc hg, trivial⟩
      · simp only [hs]
        cases hg : c.getToken i.host .bearer i.hintKey with
        | none => trivial
        | some t => exact ⟨getToken_host hc hg, trivial⟩
  have hretryOk : ∀ (ak : Option ScopeKey) (key : ScopeKey), ∀ o ∈ (retryAttempt c i ak key).1, OutOk i o := by
    intro ak key
    unfold retryAttempt
    split
    · cases hg : c.getToken i.host .bearer key with
      | none => intro o ho; cases ho
      | some t =>
        intro o ho
        simp only [List.mem_singleton] at ho
        subst ho
        exact ⟨getToken_host hc hg, rfl⟩
    · intro o ho; cases ho
  unfold authFlow
  simp only
  cases hr1 : i.r1 with
  | final => exact ⟨by intro o ho; simp at ho; subst ho; exact h1, hc⟩
  | unknown => exact ⟨by intro o ho; simp at ho; subst ho; exact h1, hc⟩
  | basic =>
    simp only
    split
    · refine ⟨?_, cacheInv_set hc _ _ _ _ rfl⟩
      intro o ho
      simp only [List.mem_cons, List.mem_singleton, List.not_mem_nil, or_false] at ho
      rcases ho with ho | ho
      · subst ho; exact h1
      · subst ho; exact ⟨rfl, rfl⟩
    · exact ⟨by intro o ho; simp at ho; subst ho; exact h1, hc⟩
  | bearer realm key =>
    simp only
    have hR := hretryOk (firstAttempt c i).2 key
    split
    · refine ⟨?_, hc⟩
      intro o ho
      simp only [List.mem_cons] at ho
      rcases ho with ho | ho
      · subst ho; exact h1
      · exact hR o ho
    · split
      · refine ⟨?_, cacheInv_set hc _ _ _ _ rfl⟩
        intro o ho
        simp only [List.mem_cons, List.mem_append, List.mem_singleton, List.not_mem_nil, or_false] at ho
        rcases ho with (ho | ho) | ho
        · subst ho; exact h1
        · exact hR o ho
        · subst ho; exact ⟨rfl, rfl⟩
      · -- token fetch to the advertised realm
        have fetchOk : OutOk i ⟨realm, carriedSecret i, .tokenFetch⟩ := by
          unfold OutOk carriedSecret
          split
          · trivial
          · rename_i s hs
            split at hs
            · cases hs
            · split at hs
              · injection hs with hs; subst hs
                exact ⟨rfl, Or.inl rfl, key, hr1⟩
              · split at hs
                · injection hs with hs; subst hs
                  exact ⟨rfl, Or.inr rfl, key, hr1⟩
                · injection hs with hs; subst hs
                  exact ⟨rfl, Or.inl rfl, key, hr1⟩
        cases hf : i.fetchOk with
        | none =>
          refine ⟨?_, hc⟩
          intro o ho
          simp only [List.mem_cons, List.mem_append, List.mem_singleton, List.not_mem_nil, or_false] at ho
          rcases ho with (ho | ho) | ho
          · subst ho; exact h1
          · exact hR o ho
          · subst ho; exact fetchOk
        | some id =>
          refine ⟨?_, cacheInv_set hc _ _ _ _ rfl⟩
          intro o ho
          simp only [List.mem_cons, List.mem_append, List.mem_singleton, List.not_mem_nil, or_false] at ho
          rcases ho with (ho | ho) | ho | ho
          · subst ho; exact h1
          · exact hR o ho
          · subst ho; exact fetchOk
          · subst ho; exact ⟨rfl, rfl⟩

/-- **No cross-host secrets, every history**: any sequence of `Do` calls to any hosts,
    sharing one cache that starts empty, with arbitrary replies: every emitted request is
    fine, and the cache invariant holds throughout. -/
theorem c16_history (calls : List DoIn) :
    ∀ (c : ACache), CacheInv c →
      let run := calls.foldl (fun (acc : List (DoIn × Out) × ACache) i =>
        let r := authFlow acc.2 i
        (acc.1 ++ r.1.map (fun o => (i, o)), r.2)) ([], c)
      (∀ io ∈ run.1, OutOk io.1 io.2) ∧ CacheInv run.2 := by
  intro c hc
  suffices h : ∀ (acc : List (DoIn × Out) × ACache), (∀ io ∈ acc.1, OutOk io.1 io.2) → CacheInv acc.2 →
      (∀ io ∈ (calls.foldl (fun (acc : List (DoIn × Out) × ACache) i =>
          let r := authFlow acc.2 i
          (acc.1 ++ r.1.map (fun o => (i, o)), r.2)) acc).1, OutOk io.1 io.2) ∧
      CacheInv (calls.foldl (fun (acc : List (DoIn × Out) × ACache) i =>
          let r := authFlow acc.2 i
          (acc.1 ++ r.1.map (fun o => (i, o)), r.2)) acc).2 from
    h ([], c) (by intro io hio; cases hio) hc
  induction calls with
  | nil => intro acc h1 h2; exact ⟨h1, h2⟩
  | cons i rest ih =>
    intro acc h1 h2
    simp only [List.foldl_cons]
    obtain ⟨ho, hc'⟩ := c16_no_cross_host acc.2 h2 i
    apply ih
    · intro io hio
      rcases List.mem_append.mp hio with h | h
      · exact h1 io h
      · obtain ⟨o, hom, rfl⟩ := List.mem_map.mp h
        exact ho o hom
    · exact hc'

/-- **Bounded**: at most three sends to the registry and one token fetch per `Do`. -/
theorem c16_bounded (c : ACache) (i : DoIn) :
    ((authFlow c i).1.filter (·.kind = .registry)).length ≤ 3 ∧
    ((authFlow c i).1.filter (·.kind = .tokenFetch)).length ≤ 1 := by
  have hr : ∀ (ak : Option ScopeKey) (key : ScopeKey),
      ((retryAttempt c i ak key).1.filter (·.kind = .registry)).length ≤ 1 ∧
      ((retryAttempt c i ak key).1.filter (·.kind = .tokenFetch)).length = 0 := by
    intro ak key
    unfold retryAttempt
    split
    · cases c.getToken i.host .bearer key <;> simp
    · simp
  unfold authFlow
  simp only
  cases i.r1 with
  | final => simp
  | unknown => simp
  | basic => simp only; split <;> simp
  | bearer realm key =>
    simp only
    obtain ⟨h1, h2⟩ := hr (firstAttempt c i).2 key
    split
    · simp only [List.filter_cons, decide_true, if_true, List.length_cons, reduceCtorEq, decide_false,
        Bool.false_eq_true, if_false]
      omega
    · split
      · simp only [List.filter_cons, List.filter_append, decide_true, if_true, List.length_cons,
          List.length_append, reduceCtorEq, decide_false, Bool.false_eq_true, if_false, List.filter_nil,
          List.length_nil]
        omega
      · cases i.fetchOk <;>
          simp only [List.filter_cons, List.filter_append, decide_true, if_true, List.length_cons,
            List.length_append, reduceCtorEq, decide_false, Bool.false_eq_true, if_false, List.filter_nil,
            List.length_nil] <;> omega

theorem c16_cache_inv_init : CacheInv [] := by intro p hp; cases hp

/-- Non-vacuity: a Bearer flow with a foreign realm, then a second call that reuses the
    cached token only for the same host. -/
example :
    let i1 : DoIn := ⟨1, 5, ⟨true, false, false⟩, false, .bearer 9 5, .final, some 77⟩
    let r1 := authFlow [] i1
    let i2 : DoIn := ⟨2, 5, ⟨true, false, false⟩, false, .final, .final, none⟩
    let i3 : DoIn := ⟨1, 5, ⟨true, false, false⟩, false, .final, .final, none⟩
    r1.1 = [⟨1, none, .registry⟩, ⟨9, some (.pw 1), .tokenFetch⟩, ⟨1, some (.tok 1 77), .registry⟩] ∧
    (authFlow r1.2 i2).1 = [⟨2, none, .registry⟩] ∧
    (authFlow r1.2 i3).1 = [⟨1, some (.tok 1 77), .registry⟩] := by
  decide

/-! ### Scope sets: order-insensitive, duplicate-free, wildcard-absorbing -/

theorem mem_absorb (gs : List Grant) (g : Grant) :
    g ∈ absorb gs ↔ (g ∈ gs ∧ (g.2.2 = star ∨ (g.1, g.2.1, star) ∉ gs)) := by
  unfold absorb
  simp only [List.mem_filter, List.contains_eq_mem, decide_eq_true_eq, Bool.decide_or,
    Bool.or_eq_true, decide_not, Bool.not_eq_eq_eq_not, Bool.not_true, decide_eq_false_iff_not]

/-- **Exactly the granted set, wildcard absorbed**: a permission is in the canonical scope
    set iff it was given and is not absorbed by a wildcard on the same resource. -/
theorem c16_scopes_grants (gs : List Grant) (g : Grant) :
    g ∈ cleanGrants gs ↔ (g ∈ gs ∧ (g.2.2 = star ∨ (g.1, g.2.1, star) ∉ gs)) := by
  unfold cleanGrants
  rw [mem_canon, mem_absorb]

/-- **Order-insensitive and duplicate-insensitive**: two scope lists granting the same set
    (any permutation, any repetition) have the same canonical form. -/
theorem c16_scopes_canonical (gs₁ gs₂ : List Grant) (h : ∀ g, g ∈ gs₁ ↔ g ∈ gs₂) :
    cleanGrants gs₁ = cleanGrants gs₂ := by
  unfold cleanGrants
  apply canon_congr grantLt_strictTotal
  intro g
  rw [mem_absorb, mem_absorb, h g, h (g.1, g.2.1, star)]

theorem c16_scopes_perm (gs₁ gs₂ : List Grant) (h : gs₁.Perm gs₂) : cleanGrants gs₁ = cleanGrants gs₂ :=
  c16_scopes_canonical gs₁ gs₂ (fun _ => h.mem_iff)

/-- **Idempotent**. -/
theorem c16_scopes_idempotent (gs : List Grant) : cleanGrants (cleanGrants gs) = cleanGrants gs := by
  apply ssorted_ext grantLt_strictTotal _ _ (ssorted_canon grantLt_strictTotal _) (ssorted_canon grantLt_strictTotal _)
  intro g
  show g ∈ cleanGrants (cleanGrants gs) ↔ g ∈ cleanGrants gs
  rw [c16_scopes_grants (cleanGrants gs) g]
  constructor
  · exact fun h => h.1
  · intro h
    refine ⟨h, ?_⟩
    rcases ((c16_scopes_grants gs g).mp h).2 with h2 | h2
    · exact Or.inl h2
    · exact Or.inr (fun hin => h2 ((c16_scopes_grants gs _).mp hin).1)

/-- **Sorted and duplicate-free**. -/
theorem c16_scopes_sorted (gs : List Grant) : SSorted grantLt (cleanGrants gs) :=
  ssorted_canon grantLt_strictTotal _

/-- **Wildcard-absorbing**: once `*` is granted on a resource, it is the only action listed. -/
theorem c16_scopes_wildcard (gs : List Grant) (t n a : Str) (hs : (t, n, star) ∈ gs)
    (ha : (t, n, a) ∈ cleanGrants gs) : a = star := by
  have := (c16_scopes_grants gs (t, n, a)).mp ha
  rcases this.2 with h | h
  · exact h
  · exact absurd hs h

end Oras.Props.C16
