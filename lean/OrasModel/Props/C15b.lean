/-
  C15 — the client-side artifact-type filter of the referrers listing (`filterReferrers`) keeps
  exactly the entries of that type, in order (`Model/Compact.lean`).
-/
import OrasModel.Proofs.Compact
namespace Oras.Props.C15
open Oras Oras.Compact

theorem c15_filter_referrers_is_filter {α : Type} [DecidableEq α] (typeOf : α → String) (artifactType : String) (refs : List α) :
    compact (fun r => typeOf r == artifactType) atCursor refs = refs.filter (fun r => typeOf r == artifactType) :=
  compact_eq_filter _ refs

end Oras.Props.C15
