/-
  C15 — the client-side artifact-type filter of the referrers listing (`filterReferrers`) keeps
  exactly the entries of that type, in order (`Model/Compact.lean`).
-/
import OrasModel.Proofs.Compact
import OrasModel.Gen.Facts
namespace Oras.Props.C15
open Oras Oras.Compact

theorem c15_filter_referrers_is_filter {α : Type} [DecidableEq α] (typeOf : α → String) (artifactType : String) (refs : List α) :
    compact (fun r => typeOf r == artifactType) atCursor refs = refs.filter (fun r => typeOf r == artifactType) :=
  compact_eq_filter _ refs

/-- The error-response parser reads the body through one size-limited reader of 8 KiB and
    nothing else. -/
theorem c15_error_body_source_facts :
    Gen.errBodyReaders = ["io.LimitReader(resp.Body, maxErrorBytes)"] ∧ Gen.errBodyLimit = "8 * 1024" := by
  decide

end Oras.Props.C15
