/-
  C20 — References parse exactly per grammar, round-trip, and stay in their URL slot.
  Property theorems only.  Model: `Model/Ref.lean`, `Model/Re.lean`; regex trees, digest
  algorithm table: `Gen/Regex.lean` (regenerated from /repo and go-digest on every run).
-/
import OrasModel.Proofs.Ref
import OrasModel.Gen.Regex
import OrasModel.Gen.Facts
import OrasModel.Proofs.ReLen
namespace Oras.Props.C20
open Oras

/-- The reference suffix per the documented grammar, as a *decomposition* (no searching):
    suffix text ↦ resulting reference.  The last three constructors are the lenient forms
    (a bare trailing `:` or `@`), which the property does not judge. -/
inductive Suffix (cfg : RefCfg) : Str → Str → Prop
  | none : Suffix cfg [] []
  | tag (t : Str) : t ≠ [] → tagOk cfg t = true → Suffix cfg (':' :: t) t
  | digest (d : Str) : digestOk cfg d = true → Suffix cfg ('@' :: d) d
  | tagDigest (t d : Str) : '@' ∉ t → digestOk cfg d = true → Suffix cfg (':' :: t ++ '@' :: d) d
  | bareColon : Suffix cfg [':'] []
  | bareAt : Suffix cfg ['@'] []
  | tagBareAt (t : Str) : '@' ∉ t → Suffix cfg (':' :: t ++ ['@']) []

/-- `s` is `registry "/" repository suffix` with valid parts, and `r` holds those parts. -/
def InGrammar (cfg : RefCfg) (s : Str) (r : Ref) : Prop :=
  ∃ suf, s = r.registry ++ '/' :: (r.repository ++ suf) ∧ '/' ∉ r.registry ∧
    cfg.validReg r.registry = true ∧ repoOk cfg r.repository = true ∧ Suffix cfg suf r.reference

/-- What the proofs need from the recognisers; each clause is decided on the generated
    trees below (`c20_gen_cfg_ok`). -/
structure CfgOK (cfg : RefCfg) : Prop where
  repo_colon : exclRepo cfg ':' = true
  repo_at : exclRepo cfg '@' = true
  tag_at : exclTag cfg '@' = true
  tag_colon : exclTag cfg ':' = true
  dig_at : exclDigest cfg '@' = true
  repo_nonempty : cfg.repoRe.nullable = false

theorem parse_sound (cfg : RefCfg) (s : Str) (r : Ref) (h : parseRef cfg s = some r) :
    InGrammar cfg s r := by
  unfold parseRef at h
  cases hsr : splitRef s with
  | none => simp [hsr] at h
  | some q =>
    obtain ⟨reg, repo, ref, isTag⟩ := q
    simp only [hsr] at h
    by_cases hv : cfg.validReg reg = true
    · by_cases hr : repoOk cfg repo = true
      · simp only [hv, hr, Bool.not_true, Bool.false_eq_true, if_false] at h
        -- analyse the split
        unfold splitRef at hsr
        cases h1 : splitFirst '/' s with
        | none => simp [h1] at hsr
        | some p1 =>
          obtain ⟨reg', path⟩ := p1
          simp only [h1] at hsr
          obtain ⟨e1, n1⟩ := splitFirst_some h1
          cases h2 : splitFirst '@' path with
          | some p2 =>
            obtain ⟨before, dg⟩ := p2
            simp only [h2] at hsr
            obtain ⟨e2, n2⟩ := splitFirst_some h2
            cases h3 : splitFirst ':' before with
            | some p3 =>
              obtain ⟨repo', t⟩ := p3
              simp only [h3, Option.some.injEq, Prod.mk.injEq] at hsr
              obtain ⟨a1, a2, a3, a4⟩ := hsr
              subst a1 a2 a3 a4
              obtain ⟨e3, _⟩ := splitFirst_some h3
              have nt : '@' ∉ t := by
                intro hin; apply n2; rw [e3]; simp [hin]
              by_cases hemp : dg.isEmpty = true
              · simp only [hemp, if_true, Option.some.injEq] at h
                subst h
                have : dg = [] := by simpa using hemp
                subst this
                exact ⟨':' :: t ++ ['@'], by simp [e1, e2, e3], n1, hv, hr, Suffix.tagBareAt t nt⟩
              · simp only [hemp, Bool.false_eq_true, if_false] at h
                by_cases hd : digestOk cfg dg = true
                · simp only [hd, if_true, Option.some.injEq] at h
                  subst h
                  exact ⟨':' :: t ++ '@' :: dg, by simp [e1, e2, e3], n1, hv, hr,
                    Suffix.tagDigest t dg nt hd⟩
                · simp [hd] at h
            | none =>
              simp only [h3, Option.some.injEq, Prod.mk.injEq] at hsr
              obtain ⟨a1, a2, a3, a4⟩ := hsr
              subst a1 a2 a3 a4
              by_cases hemp : dg.isEmpty = true
              · simp only [hemp, if_true, Option.some.injEq] at h
                subst h
                have : dg = [] := by simpa using hemp
                subst this
                exact ⟨['@'], by simp [e1, e2], n1, hv, hr, Suffix.bareAt⟩
              · simp only [hemp, Bool.false_eq_true, if_false] at h
                by_cases hd : digestOk cfg dg = true
                · simp only [hd, if_true, Option.some.injEq] at h
                  subst h
                  exact ⟨'@' :: dg, by simp [e1, e2], n1, hv, hr, Suffix.digest dg hd⟩
                · simp [hd] at h
          | none =>
            simp only [h2] at hsr
            cases h3 : splitFirst ':' path with
            | some p3 =>
              obtain ⟨repo', t⟩ := p3
              simp only [h3, Option.some.injEq, Prod.mk.injEq] at hsr
              obtain ⟨a1, a2, a3, a4⟩ := hsr
              subst a1 a2 a3 a4
              obtain ⟨e3, _⟩ := splitFirst_some h3
              by_cases hemp : t.isEmpty = true
              · simp only [hemp, if_true, Option.some.injEq] at h
                subst h
                have : t = [] := by simpa using hemp
                subst this
                exact ⟨[':'], by simp [e1, e3], n1, hv, hr, Suffix.bareColon⟩
              · simp only [hemp, Bool.false_eq_true, if_false, if_true] at h
                by_cases ht : tagOk cfg t = true
                · simp only [ht, if_true, Option.some.injEq] at h
                  subst h
                  have hne : t ≠ [] := by intro e; apply hemp; simp [e]
                  exact ⟨':' :: t, by simp [e1, e3], n1, hv, hr, Suffix.tag t hne ht⟩
                · simp [ht] at h
            | none =>
              simp only [h3, Option.some.injEq, Prod.mk.injEq] at hsr
              obtain ⟨a1, a2, a3, a4⟩ := hsr
              subst a1 a2 a3 a4
              simp only [List.isEmpty_nil, if_true, Option.some.injEq] at h
              subst h
              exact ⟨[], by simp [e1], n1, hv, hr, Suffix.none⟩
      · simp [hv, hr] at h
    · simp [hv] at h

theorem parse_complete (cfg : RefCfg) (hc : CfgOK cfg) (s : Str) (r : Ref) (h : InGrammar cfg s r) :
    parseRef cfg s = some r := by
  obtain ⟨suf, hs, hreg, hv, hr, hsuf⟩ := h
  obtain ⟨reg, repo, ref⟩ := r
  simp only at hs hreg hv hr hsuf
  have rc : ':' ∉ repo := repoOk_excl hc.repo_colon hr
  have ra : '@' ∉ repo := repoOk_excl hc.repo_at hr
  have h1 : splitFirst '/' s = some (reg, repo ++ suf) := by
    rw [hs]; exact splitFirst_append reg (repo ++ suf) hreg
  unfold parseRef splitRef
  rw [h1]
  cases hsuf with
  | none =>
    have h2 : splitFirst '@' repo = none := splitFirst_none.mpr ra
    have h3 : splitFirst ':' repo = none := splitFirst_none.mpr rc
    simp [h2, h3, hv, hr]
  | tag t hne ht =>
    have ta : '@' ∉ ref := tagOk_excl hc.tag_at ht
    have h2 : splitFirst '@' (repo ++ ':' :: ref) = none := by
      apply splitFirst_none.mpr
      simp only [List.mem_append, List.mem_cons, not_or]
      exact ⟨ra, by decide, ta⟩
    have h3 : splitFirst ':' (repo ++ ':' :: ref) = some (repo, ref) := splitFirst_append _ _ rc
    have hemp : ref.isEmpty = false := by cases ref <;> simp_all
    simp [h2, h3, hv, hr, hemp, ht]
  | digest d hd =>
    have h2 : splitFirst '@' (repo ++ '@' :: ref) = some (repo, ref) := splitFirst_append _ _ ra
    have h3 : splitFirst ':' repo = none := splitFirst_none.mpr rc
    have hemp : ref.isEmpty = false := by
      have := digestOk_nonempty hd; cases ref <;> simp_all
    simp [h2, h3, hv, hr, hemp, hd]
  | tagDigest t d nt hd =>
    have hb : '@' ∉ repo ++ ':' :: t := by
      simp only [List.mem_append, List.mem_cons, not_or]
      exact ⟨ra, by decide, nt⟩
    have h2 : splitFirst '@' (repo ++ ':' :: (t ++ '@' :: ref)) = some (repo ++ ':' :: t, ref) := by
      have := splitFirst_append (repo ++ ':' :: t) ref hb
      simpa using this
    have h3 : splitFirst ':' (repo ++ ':' :: t) = some (repo, t) := splitFirst_append _ _ rc
    have hemp : ref.isEmpty = false := by
      have := digestOk_nonempty hd; cases ref <;> simp_all
    simp [h2, h3, hv, hr, hemp, hd]
  | bareColon =>
    have h2 : splitFirst '@' (repo ++ [':']) = none := by
      apply splitFirst_none.mpr
      simp only [List.mem_append, List.mem_cons, not_or]
      exact ⟨ra, by decide, by simp⟩
    have h3 : splitFirst ':' (repo ++ [':']) = some (repo, []) := splitFirst_append _ _ rc
    simp [h2, h3, hv, hr]
  | bareAt =>
    have h2 : splitFirst '@' (repo ++ ['@']) = some (repo, []) := splitFirst_append _ _ ra
    have h3 : splitFirst ':' repo = none := splitFirst_none.mpr rc
    simp [h2, h3, hv, hr]
  | tagBareAt t nt =>
    have hb : '@' ∉ repo ++ ':' :: t := by
      simp only [List.mem_append, List.mem_cons, not_or]
      exact ⟨ra, by decide, nt⟩
    have h2 : splitFirst '@' (repo ++ ':' :: (t ++ ['@'])) = some (repo ++ ':' :: t, []) := by
      have := splitFirst_append (repo ++ ':' :: t) [] hb
      simpa using this
    have h3 : splitFirst ':' (repo ++ ':' :: t) = some (repo, t) := splitFirst_append _ _ rc
    simp [h2, h3, hv, hr]

/-- **Accepts exactly the grammar and returns its parts** (tag dropped before a digest):
    for every string and every registry validator. -/
theorem c20_accept_iff (cfg : RefCfg) (hc : CfgOK cfg) (s : Str) (r : Ref) :
    parseRef cfg s = some r ↔ InGrammar cfg s r :=
  ⟨parse_sound cfg s r, parse_complete cfg hc s r⟩

/-- The decomposition is unique: a string has at most one reading. -/
theorem c20_decomposition_unique (cfg : RefCfg) (hc : CfgOK cfg) (s : Str) (r₁ r₂ : Ref)
    (h₁ : InGrammar cfg s r₁) (h₂ : InGrammar cfg s r₂) : r₁ = r₂ := by
  have a := parse_complete cfg hc s r₁ h₁
  have b := parse_complete cfg hc s r₂ h₂
  rw [a] at b
  exact Option.some.inj b

/-- **Round trip**: formatting an accepted reference and parsing it again yields the
    same reference. -/
theorem c20_roundtrip (cfg : RefCfg) (hc : CfgOK cfg) (s : Str) (r : Ref)
    (h : parseRef cfg s = some r) : parseRef cfg (r.format cfg) = some r := by
  obtain ⟨suf, _, hreg, hv, hr, hsuf⟩ := parse_sound cfg s r h
  apply parse_complete cfg hc
  obtain ⟨reg, repo, ref⟩ := r
  simp only at hreg hv hr hsuf
  have hrepo : repo.isEmpty = false := by
    cases repo with
    | nil =>
      have hn := hc.repo_nonempty
      simp [repoOk, Re.accepts, hn] at hr
    | cons _ _ => rfl
  have base : ∀ (suf' ref' : Str), Suffix cfg suf' ref' →
      InGrammar cfg (reg ++ '/' :: (repo ++ suf')) ⟨reg, repo, ref'⟩ :=
    fun suf' ref' hs => ⟨suf', rfl, hreg, hv, hr, hs⟩
  have hempty : InGrammar cfg (Ref.format cfg ⟨reg, repo, []⟩) ⟨reg, repo, []⟩ := by
    have := base [] [] Suffix.none
    simpa [Ref.format, hrepo] using this
  have hdig : digestOk cfg ref = true →
      InGrammar cfg (Ref.format cfg ⟨reg, repo, ref⟩) ⟨reg, repo, ref⟩ := by
    intro hd
    have hne : ref.isEmpty = false := by
      have := digestOk_nonempty hd; cases ref <;> simp_all
    have := base ('@' :: ref) ref (Suffix.digest ref hd)
    simpa [Ref.format, hrepo, hne, hd] using this
  cases hsuf with
  | none => exact hempty
  | bareColon => exact hempty
  | bareAt => exact hempty
  | tagBareAt t nt => exact hempty
  | digest d hd => exact hdig hd
  | tagDigest t d nt hd => exact hdig hd
  | tag t hne ht =>
    have hnd : digestOk cfg ref = false := by
      cases hd : digestOk cfg ref with
      | false => rfl
      | true => exact absurd (digestOk_has_colon hd) (tagOk_excl hc.tag_colon ht)
    have hne' : ref.isEmpty = false := by cases ref <;> simp_all
    have := base (':' :: ref) ref (Suffix.tag ref hne ht)
    simpa [Ref.format, hrepo, hne', hnd] using this

/-- **URL slot**: an accepted reference's repository and reference contain none of the
    characters that could open another URL component (`?`, `#`, `%`), the repository
    contains no `:`/`@`, and the reference contains no `/` — so
    `/v2/<repository>/<kind>/<reference>` has exactly the intended segments and no query. -/
theorem c20_url_slot (cfg : RefCfg) (s : Str) (r : Ref) (c : Char)
    (hrc : exclRepo cfg c = true) (htc : exclTag cfg c = true) (hdc : exclDigest cfg c = true)
    (h : parseRef cfg s = some r) : c ∉ r.repository ∧ c ∉ r.reference := by
  obtain ⟨suf, _, _, _, hr, hsuf⟩ := parse_sound cfg s r h
  obtain ⟨reg, repo, ref⟩ := r
  simp only at hr hsuf ⊢
  refine ⟨repoOk_excl hrc hr, ?_⟩
  cases hsuf with
  | none => simp
  | bareColon => simp
  | bareAt => simp
  | tagBareAt t nt => simp
  | tag t _ ht => exact tagOk_excl htc ht
  | digest d hd => exact digestOk_excl hdc hd
  | tagDigest t d _ hd => exact digestOk_excl hdc hd

/-! ### The configuration regenerated from /repo satisfies the hypotheses -/

/-- The recognisers of the current source tree, for any registry validator. -/
def genCfg (validReg : Str → Bool) : RefCfg :=
  { validReg := validReg, repoRe := Gen.repositoryRe, tagRe := Gen.tagRe, algs := Gen.digestAlgs }

theorem c20_gen_cfg_ok (validReg : Str → Bool) : CfgOK (genCfg validReg) where
  repo_colon := by simp only [exclRepo, genCfg]; decide
  repo_at := by simp only [exclRepo, genCfg]; decide
  tag_at := by simp only [exclTag, genCfg]; decide
  tag_colon := by simp only [exclTag, genCfg]; decide
  dig_at := by simp only [exclDigest, genCfg]; decide
  repo_nonempty := by simp only [genCfg]; decide

/-- `?`, `#`, `%`, space and `/` (for references) are excluded by the generated trees. -/
theorem c20_gen_url_chars (validReg : Str → Bool) :
    (['?', '#', '%', ' ', '\\'].all fun c =>
      exclRepo (genCfg validReg) c && exclTag (genCfg validReg) c && exclDigest (genCfg validReg) c) = true ∧
    exclTag (genCfg validReg) '/' = true ∧ exclDigest (genCfg validReg) '/' = true := by
  simp only [exclRepo, exclTag, exclDigest, genCfg]; decide

/-- The property for the current source: accept-iff-grammar, round trip. -/
theorem c20_current_source (validReg : Str → Bool) (s : Str) (r : Ref) :
    (parseRef (genCfg validReg) s = some r ↔ InGrammar (genCfg validReg) s r) ∧
    (parseRef (genCfg validReg) s = some r →
      parseRef (genCfg validReg) (r.format (genCfg validReg)) = some r) :=
  ⟨c20_accept_iff _ (c20_gen_cfg_ok validReg) s r, c20_roundtrip _ (c20_gen_cfg_ok validReg) s r⟩

/-- Non-vacuity: concrete strings in each of the four valid forms and some invalid ones. -/
example :
    let cfg := genCfg (fun r => r == "localhost:5000".toList)
    (parseRef cfg "localhost:5000/a/b_c:v1.0".toList).isSome ∧
    (parseRef cfg "localhost:5000/a/b".toList).isSome ∧
    (parseRef cfg "localhost:5000/a/B".toList).isNone ∧
    (parseRef cfg "localhost:5000/a:t@sha256:xyz".toList).isNone ∧
    (parseRef cfg "nohost".toList).isNone := by
  decide

/-- **Source fact** (regenerated): `ValidateRegistry` rejects a registry unless the host that
    `net/url` parses out of it is the whole string — which is what keeps user-info, queries and
    fragments out of the registry part (the model takes the verdict as its `validReg`
    parameter; the specification side of the driver rejects `@`, `?`, `#` on its own). -/
theorem c20_source_facts : Gen.registryHostMustEqual = true := by decide

/-- **Documented length rules, about the expressions the source compiles**: a tag the
    library accepts has between 1 and 128 characters … -/
theorem c20_tag_length (s : List Char) (h : Gen.tagRe.accepts s = true) : 1 ≤ s.length ∧ s.length ≤ 128 := by
  have h1 := Re.minLen_sound Gen.tagRe s h
  have h2 := Re.maxLen_sound Gen.tagRe 128 (by decide) s h
  have hm : Re.minLen Gen.tagRe = 1 := by decide
  rw [hm] at h1
  exact ⟨h1, h2⟩

/-- … the registered digest algorithms are exactly sha256, sha384 and sha512, and an
    accepted encoding has exactly the algorithm's hex length … -/
theorem c20_digest_length (alg : List Char) (r : Re) (hm : (alg, r) ∈ Gen.digestAlgs)
    (s : List Char) (h : r.accepts s = true) :
    (alg = "sha256".toList ∧ s.length = 64) ∨ (alg = "sha384".toList ∧ s.length = 96) ∨
    (alg = "sha512".toList ∧ s.length = 128) := by
  simp only [Gen.digestAlgs, List.mem_cons, Prod.mk.injEq, List.not_mem_nil, or_false] at hm
  rcases hm with ⟨ha, hr⟩ | ⟨ha, hr⟩ | ⟨ha, hr⟩ <;> subst hr
  · have h1 := Re.minLen_sound _ s h
    have h2 := Re.maxLen_sound _ 64 (by decide) s h
    exact Or.inl ⟨by rw [ha]; decide, by simp only [Re.minLen] at h1; omega⟩
  · have h1 := Re.minLen_sound _ s h
    have h2 := Re.maxLen_sound _ 96 (by decide) s h
    exact Or.inr (Or.inl ⟨by rw [ha]; decide, by simp only [Re.minLen] at h1; omega⟩)
  · have h1 := Re.minLen_sound _ s h
    have h2 := Re.maxLen_sound _ 128 (by decide) s h
    exact Or.inr (Or.inr ⟨by rw [ha]; decide, by simp only [Re.minLen] at h1; omega⟩)

/-- … and a repository name is not empty. -/
theorem c20_repository_nonempty (s : List Char) (h : Gen.repositoryRe.accepts s = true) : 1 ≤ s.length := by
  have h1 := Re.minLen_sound Gen.repositoryRe s h
  have hm : Re.minLen Gen.repositoryRe = 1 := by decide
  rw [hm] at h1; exact h1

-- Non-vacuity: a 128-character tag is accepted, a 129-character one is not.
set_option maxRecDepth 16384 in
example : Gen.tagRe.accepts (List.replicate 128 't') = true ∧ Gen.tagRe.accepts (List.replicate 129 't') = false := by
  refine ⟨by decide, by decide⟩

end Oras.Props.C20

namespace Oras.Props.C20
open Oras

/-- **Repository forms**: against a repository `base`, a tag, a digest, `tag@digest` and the
    fully-qualified string all resolve to the same reference `base` + that tag/digest; a
    fully-qualified string naming another registry or repository is rejected. -/
theorem c20_repo_forms (cfg : RefCfg) (hc : CfgOK cfg) (base : Ref)
    (hts : exclTag cfg '/' = true) (hds : exclDigest cfg '/' = true)
    (hreg : '/' ∉ base.registry) (hv : cfg.validReg base.registry = true)
    (hr : repoOk cfg base.repository = true) :
    (∀ t, t ≠ [] → tagOk cfg t = true →
        repoParseRef cfg base t = some ⟨base.registry, base.repository, t⟩ ∧
        repoParseRef cfg base (Ref.format cfg ⟨base.registry, base.repository, t⟩)
          = some ⟨base.registry, base.repository, t⟩) ∧
    (∀ d, digestOk cfg d = true →
        repoParseRef cfg base d = some ⟨base.registry, base.repository, d⟩ ∧
        (∀ t, '@' ∉ t → '/' ∉ t →
          repoParseRef cfg base (t ++ '@' :: d) = some ⟨base.registry, base.repository, d⟩) ∧
        repoParseRef cfg base (Ref.format cfg ⟨base.registry, base.repository, d⟩)
          = some ⟨base.registry, base.repository, d⟩) ∧
    (∀ s r, parseRef cfg s = some r →
        (r.registry ≠ base.registry ∨ r.repository ≠ base.repository) →
        repoParseRef cfg base s = none) := by
  have noSlashParse : ∀ s : Str, '/' ∉ s → parseRef cfg s = none := by
    intro s hs
    unfold parseRef splitRef
    rw [splitFirst_none.mpr hs]
  refine ⟨?_, ?_, ?_⟩
  · intro t hne ht
    have ts : '/' ∉ t := tagOk_excl hts ht
    have ta : '@' ∉ t := tagOk_excl hc.tag_at ht
    have tc : ':' ∉ t := tagOk_excl hc.tag_colon ht
    have hemp : t.isEmpty = false := by cases t <;> simp_all
    constructor
    · unfold repoParseRef
      rw [noSlashParse t ts, splitFirst_none.mpr ta]
      have : validateReference cfg t = true := by
        unfold validateReference
        simp [hemp, tc, ht]
      simp [this, hemp]
    · have hg : InGrammar cfg (base.registry ++ '/' :: (base.repository ++ ':' :: t))
          ⟨base.registry, base.repository, t⟩ :=
        ⟨':' :: t, rfl, hreg, hv, hr, Suffix.tag t hne ht⟩
      have hp := parse_complete cfg hc _ _ hg
      have hrt := c20_roundtrip cfg hc _ _ hp
      unfold repoParseRef
      rw [hrt]
      simp [hemp]
  · intro d hd
    have ds : '/' ∉ d := digestOk_excl hds hd
    have da : '@' ∉ d := digestOk_excl hc.dig_at hd
    have dc : ':' ∈ d := digestOk_has_colon hd
    have hemp : d.isEmpty = false := by
      have := digestOk_nonempty hd; cases d <;> simp_all
    refine ⟨?_, ?_, ?_⟩
    · unfold repoParseRef
      rw [noSlashParse d ds, splitFirst_none.mpr da]
      have : validateReference cfg d = true := by
        unfold validateReference
        simp [hemp, dc, hd]
      simp [this, hemp]
    · intro t ta ts
      have hs : '/' ∉ t ++ '@' :: d := by
        simp only [List.mem_append, List.mem_cons, not_or]
        exact ⟨ts, by decide, ds⟩
      unfold repoParseRef
      rw [noSlashParse _ hs, splitFirst_append t d ta]
      simp [hd, hemp]
    · have hg : InGrammar cfg (base.registry ++ '/' :: (base.repository ++ '@' :: d))
          ⟨base.registry, base.repository, d⟩ :=
        ⟨'@' :: d, rfl, hreg, hv, hr, Suffix.digest d hd⟩
      have hp := parse_complete cfg hc _ _ hg
      have hrt := c20_roundtrip cfg hc _ _ hp
      unfold repoParseRef
      rw [hrt]
      simp [hemp]
  · intro s r hp hne
    unfold repoParseRef
    rw [hp]
    simp [hne]

end Oras.Props.C20
