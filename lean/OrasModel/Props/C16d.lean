/-
  C16 — the WWW-Authenticate parser (`Model/Challenge.lean`): a challenge that is not Bearer
  yields no parameters (hence no token realm), and a Bearer challenge in the usual form yields
  exactly the realm and service it states, for every text between the quotes.
-/
import OrasModel.Model.Challenge
namespace Oras.Props.C16
open Oras Oras.Challenge

/-- text that needs no escape between double quotes -/
def Plain (v : List Char) : Prop := ∀ c ∈ v, c ≠ '"' ∧ c ≠ '\\' ∧ c ≠ '\n'

theorem quoted_plain (v rest : List Char) (h : Plain v) : quoted (v ++ '"' :: rest) = some (some (v, rest)) := by
  induction v with
  | nil => simp [quoted]
  | cons c cs ih =>
    have hc := h c List.mem_cons_self
    have hcs : Plain cs := fun x hx => h x (List.mem_cons_of_mem _ hx)
    have := ih hcs
    simp only [List.cons_append]
    unfold quoted
    split
    · rename_i heq; cases heq
    · rename_i heq
      injection heq with h1 _
      exact absurd h1 hc.2.1
    · rename_i heq
      injection heq with h1 _
      exact absurd h1 hc.2.1
    · rename_i c' cs' _ _ heq
      injection heq with h1 h2
      subst h1; subst h2
      simp only [hc.1, hc.2.1, hc.2.2, if_false]
      rw [this]

/-- **Only a Bearer challenge carries parameters**: whatever follows the scheme of a Basic (or
    unknown) challenge, nothing of it is taken for a token realm, a service or a scope. -/
theorem c16_challenge_non_bearer (header : List Char) (h : (parseChallenge header).1 ≠ .bearer) :
    (parseChallenge header).2 = .ok [] := by
  unfold parseChallenge at h ⊢
  simp only at h ⊢
  split
  · rfl
  · rename_i hb
    simp only [ne_eq, Decidable.not_not] at hb
    simp [hb] at h

def kRealm : List Char := ['r', 'e', 'a', 'l', 'm']
def kService : List Char := ['s', 'e', 'r', 'v', 'i', 'c', 'e']

/-- the header `Bearer realm="<v>",service="<svc>"` -/
def usualHeader (v svc : List Char) : List Char :=
  ['B', 'e', 'a', 'r', 'e', 'r', ' '] ++ (kRealm ++ '=' :: '"' :: (v ++ '"' :: ',' :: (kService ++ '=' :: '"' :: (svc ++ ['"']))))

theorem params_usual (k : Nat) (v svc : List Char) (hv : Plain v) (hs : Plain svc) :
    params (k + 2) (' ' :: (kRealm ++ '=' :: '"' :: (v ++ '"' :: ',' :: (kService ++ '=' :: '"' :: (svc ++ ['"']))))) [] =
      .ok [(kRealm, v), (kService, svc)] := by
  have q1 := quoted_plain v (',' :: (kService ++ '=' :: '"' :: (svc ++ ['"']))) hv
  have q2 := quoted_plain svc [] hs
  have t1 : ∀ r, parseToken (kRealm ++ '=' :: r) = (kRealm, '=' :: r) := by
    intro r; simp [kRealm, parseToken, isTokenChar, isAlpha, isDigit]
  have t2 : ∀ r, parseToken (kService ++ '=' :: r) = (kService, '=' :: r) := by
    intro r; simp [kService, parseToken, isTokenChar, isAlpha, isDigit]
  have s1 : ∀ r, skipSpace (kRealm ++ r) = kRealm ++ r := by intro r; simp [kRealm, skipSpace]
  have s2 : ∀ r, skipSpace (kService ++ r) = kService ++ r := by intro r; simp [kService, skipSpace]
  have hr : kRealm ≠ [] := by simp [kRealm]
  have hsv : kService ≠ [] := by simp [kService]
  -- first parameter
  rw [params]
  simp only [skipSpace, true_or, if_true]
  rw [s1, t1]
  simp only [hr, if_false, skipSpace, Char.reduceEq, or_self]
  rw [q1]
  simp only [skipSpace, Char.reduceEq, or_self, if_false, List.nil_append]
  -- second parameter
  rw [params]
  rw [s2, t2]
  simp only [hsv, if_false, skipSpace, Char.reduceEq, or_self]
  rw [q2]
  simp [skipSpace]

/-- **The usual Bearer challenge yields exactly the realm and the service it states** - for
    every realm and service text that needs no escaping: the token endpoint the client turns
    to is the one the registry named, character for character. -/
theorem c16_challenge_usual (v svc : List Char) (hv : Plain v) (hs : Plain svc) :
    parseChallenge (usualHeader v svc) = (.bearer, .ok [(kRealm, v), (kService, svc)]) := by
  unfold parseChallenge usualHeader
  have ht : ∀ r, parseToken (['B', 'e', 'a', 'r', 'e', 'r', ' '] ++ r) = (['B', 'e', 'a', 'r', 'e', 'r'], ' ' :: r) := by
    intro r; simp [parseToken, isTokenChar, isAlpha, isDigit]
  rw [ht]
  have hsch : parseScheme ['B', 'e', 'a', 'r', 'e', 'r'] = .bearer := by decide
  simp only [hsch, ne_eq, not_true_eq_false, if_false]
  have hlen : ∃ k, (['B', 'e', 'a', 'r', 'e', 'r', ' '] ++ (kRealm ++ '=' :: '"' :: (v ++ '"' :: ',' :: (kService ++ '=' :: '"' :: (svc ++ ['"']))))).length + 1 = k + 2 := by
    refine ⟨v.length + svc.length + 25, ?_⟩
    simp only [kRealm, kService, List.length_append, List.length_cons, List.length_nil]
    omega
  obtain ⟨k, hk⟩ := hlen
  rw [hk, params_usual k v svc hv hs]

/-- The scheme is recognised whatever its letter case. -/
example : (parseChallenge "bEaReR realm=\"r\"".toList).1 = .bearer ∧ (parseChallenge "BASIC realm=\"r\"".toList).1 = .basic ∧
    (parseChallenge "Negotiate x".toList).1 = .unknown := by decide

end Oras.Props.C16
