/-
  C11 — The file store never writes outside its working directory by default.
  Property theorems only: the lexical layer (`resolveWritePath`).  Extraction of archives
  through links is *not* covered by a theorem (see DESIGN.md: findings F3a, F3b); it is
  checked by the sandbox-snapshot harness.
-/
import OrasModel.Model.PathLex
namespace Oras.Props.C11
open Oras

/-- A cleaned absolute path has no `..`, `.` or empty element. -/
def NoDots (l : List Seg) : Prop := ∀ s ∈ l, s ≠ dotdot ∧ s ≠ [] ∧ s ≠ ['.']

theorem cleanStep_nodots (stack : List Seg) (seg : Seg) (h : NoDots stack) :
    NoDots (cleanStep true stack seg) := by
  unfold cleanStep
  by_cases h1 : seg = [] ∨ seg = ['.']
  · simp only [h1, if_true]; exact h
  · simp only [h1, if_false]
    by_cases h2 : seg = dotdot
    · simp only [h2, if_true]
      cases stack with
      | nil => simp; intro s hs; cases hs
      | cons top rest =>
        have htop := (h top List.mem_cons_self).1
        simp only [htop, if_false]
        intro s hs; exact h s (List.mem_cons_of_mem _ hs)
    · simp only [h2, if_false]
      intro s hs
      cases hs with
      | head =>
        refine ⟨h2, ?_, ?_⟩
        · intro e; exact h1 (Or.inl e)
        · intro e; exact h1 (Or.inr e)
      | tail _ hs' => exact h s hs'

theorem cleanSegs_nodots (segs : List Seg) : NoDots (cleanSegs true segs) := by
  unfold cleanSegs
  have : ∀ (stack : List Seg), NoDots stack → NoDots (segs.foldl (cleanStep true) stack) := by
    induction segs with
    | nil => intro stack h; exact h
    | cons s ss ih => intro stack h; exact ih _ (cleanStep_nodots stack s h)
  intro s hs
  exact this [] (by intro s hs; cases hs) s (List.mem_reverse.mp hs)

/-- `Rel` does not start with `..` exactly when the base is a prefix of the target. -/
theorem rel_inside_iff (base target : List Seg) (ht : NoDots target) :
    (relSegs base target).head? ≠ some dotdot ↔ base <+: target := by
  induction base generalizing target with
  | nil => 
    simp only [relSegs, List.nil_prefix, iff_true]
    cases target with
    | nil => simp
    | cons t ts =>
      simp only [List.head?_cons, ne_eq, Option.some.injEq]
      exact (ht t List.mem_cons_self).1
  | cons b bs ih =>
    cases target with
    | nil => simp [relSegs]
    | cons t ts =>
      simp only [relSegs]
      by_cases e : b = t
      · subst e
        simp only [if_true]
        rw [ih ts (fun s hs => ht s (List.mem_cons_of_mem _ hs))]
        constructor
        · intro h; exact List.cons_prefix_cons.mpr ⟨rfl, h⟩
        · intro h; exact (List.cons_prefix_cons.mp h).2
      · simp only [e, if_false, List.map_cons, List.cons_append, List.head?_cons, ne_eq,
          not_true_eq_false, false_iff]
        intro h
        exact e (List.cons_prefix_cons.mp h).1

/-- **Every accepted title resolves inside the working directory**: for every title
    annotation (relative, absolute, with `..`, `.`, empty elements), `resolveWritePath`
    either reports path traversal or returns a cleaned absolute path that has the working
    directory as a prefix — and it accepts exactly those. -/
theorem c11_name_contained (wd : List Seg) (name : List Char) :
    (∀ p, resolveWritePath wd name = some p → wd <+: p ∧ NoDots p) ∧
    (resolveWritePath wd name = none →
      ¬ wd <+: (if isAbsPath name then cleanSegs true (splitSlash name)
                else cleanSegs true (wd ++ splitSlash name))) := by
  unfold resolveWritePath
  simp only
  generalize ht : (if isAbsPath name = true then cleanSegs true (splitSlash name)
    else cleanSegs true (wd ++ splitSlash name)) = target
  have hnd : NoDots target := by
    rw [← ht]; split <;> exact cleanSegs_nodots _
  have hiff := rel_inside_iff wd target hnd
  constructor
  · intro p hp
    by_cases h : (relSegs wd target).head? = some dotdot
    · simp [h] at hp
    · simp only [h, if_false, Option.some.injEq] at hp
      subst hp
      exact ⟨hiff.mp h, hnd⟩
  · intro hn
    by_cases h : (relSegs wd target).head? = some dotdot
    · intro hpre
      exact (hiff.mpr hpre) h
    · simp [h] at hn

/-- Non-vacuity. -/
example :
    let wd : List Seg := ["r".toList, "wd".toList]
    resolveWritePath wd "a/../b".toList = some ["r".toList, "wd".toList, "b".toList] ∧
    resolveWritePath wd "a/../../x".toList = none ∧
    resolveWritePath wd "/r/wd/in".toList = some ["r".toList, "wd".toList, "in".toList] ∧
    resolveWritePath wd "/r/other".toList = none ∧
    cleanPath "a//b/./../c/".toList = "a/c".toList ∧ cleanPath "/../x".toList = "/x".toList := by
  decide

end Oras.Props.C11
