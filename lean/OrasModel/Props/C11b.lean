/-
  C11 — what an archive's regular, directory and symbolic-link entries touch, in a directory
  that may hold links leading anywhere (`Model/LinkFS.lean`).  Property theorems only.

  The statement is partial with respect to the property: hard-link entries are outside the
  model (an inode shared with a file elsewhere is not a location; known finding F3b), and so
  are named blobs (`resolveWritePath` is lexical; known finding F3c).
-/
import OrasModel.Proofs.LinkFS
import OrasModel.Gen.Facts
namespace Oras.Props.C11
open Oras Oras.LinkFS

/-- **A path with no link on it resolves where it says.** -/
theorem c11_resolve_lexical (fs : FS) (p : Path) (h : NoLinkOn fs p) :
    resolve fs p = .error ∨ resolve fs p = .at p :=
  resolve_lexical fs p h

/-- **Nothing outside is created, truncated, removed or re-moded** by the regular, directory
    and symbolic-link entries of any archive, unpacked — with or without
    `PreservePermissions` — into a directory holding any objects at all: links to anywhere,
    placed before the extraction or by earlier entries (whose targets the code only checks
    lexically: the model lets every link entry lead anywhere).  Extraction that stops at a
    refused entry is covered: `run` returns what had been touched by then. -/
theorem c11_archive_touches_nothing_outside_partial (preserve : Bool) (fs : FS) (es : List Ent) :
    ∀ l ∈ (run true preserve ⟨fs, []⟩ es).touched, l ≠ .outside :=
  run_safe preserve es ⟨fs, []⟩ (by intro l hl; cases hl)

/-- **An accepted regular entry ends up as a regular file at its own path**, whatever was there
    (a link included) and wherever that link led. -/
theorem c11_reg_lands_at_own_path (preserve : Bool) (st st' : St) (p : Path)
    (h : step true preserve st (.reg p) = some st') : st'.fs p = some .file := by
  simp only [step] at h
  split at h
  · cases h
  · split at h
    · cases h
    · rename_i hp ha
      have ha' : ancestorsOk st.fs p = true := by simpa using ha
      have hl := resolve_lexical _ p (noLinkOn_dropLink st.fs p ha')
      simp only [if_true] at h
      cases hl with
      | inl he => rw [he] at h; cases h
      | inr hat =>
        rw [hat] at h
        simp only at h
        split at h
        · cases h
        · cases h
          simp [FS.set]

/-- A directory holding a link to a file elsewhere and a link to a directory elsewhere. -/
def prepopulated : FS := fun q =>
  if q = [1] then some (.sym .outside) else if q = [2] then some (.sym .outside) else
  if q = [3] then some .dir else none

/-- The code before the repairs F24 and F25: a regular entry at the link's path is written
    through it, and a directory entry there has its mode applied through it. -/
theorem c11_counterexample_through_link_at_own_path :
    (run false false ⟨prepopulated, []⟩ [.reg [1]]).touched = [.outside] ∧
    (run false true ⟨prepopulated, []⟩ [.dir [2]]).touched = [.outside] ∧
    (run false false ⟨fun _ => none, []⟩ [.sym [1] .outside, .reg [1]]).touched = [.outside, .at [1]] := by
  refine ⟨by decide, by decide, by decide⟩

/-- Non-vacuity: the repaired code on the same inputs goes on and touches the entries' own
    locations; an entry beneath a link is refused. -/
example :
    (run true false ⟨prepopulated, []⟩ [.reg [1]]).touched = [.at [1], .at [1]] ∧
    (run true true ⟨prepopulated, []⟩ [.dir [2]]).touched = [.at [2], .at [2], .at [2]] ∧
    (run true false ⟨prepopulated, []⟩ [.reg [3, 7], .reg [2, 7], .reg [3, 8]]).touched = [.at [3, 7]] ∧
    (run true false ⟨fun _ => none, []⟩ [.sym [1] .outside, .reg [1], .dir [4, 5], .reg [4, 5, 6]]).touched =
      [.at [4, 5, 6], .at [4, 5], .at [4], .at [1], .at [1], .at [1]] := by
  refine ⟨by decide, by decide, by decide, by decide⟩

/-- The steps the model takes are the calls the source makes: the name check before the
    switch, a link at the entry's own path removed before a regular entry is written and
    before a directory is made, modes applied to regular and directory entries only, and the
    ancestor walk refusing a link. -/
theorem c11_extract_source_facts :
    Gen.extractPrelude = ["resolveRelToBase"] ∧
    Gen.extractCases.lookup "tar.TypeReg" = some ["os.Lstat", "os.Remove", "writeFile"] ∧
    Gen.extractCases.lookup "tar.TypeDir" = some ["os.Lstat", "os.Remove", "os.MkdirAll"] ∧
    Gen.extractCases.lookup "tar.TypeSymlink" = some ["ensureLinkPath", "os.Symlink", "os.Remove", "os.Symlink"] ∧
    Gen.extractChmodGuard = "preservePermissions && (header.Typeflag == tar.TypeReg || header.Typeflag == tar.TypeDir)" ∧
    Gen.relToBaseWalk.take 2 = ["for dir != \".\"", "init os.Lstat(filepath.Join(baseAbs, dir))"] ∧
    "if info.Mode() & os.ModeSymlink != 0" ∈ Gen.relToBaseWalk ∧
    Gen.relToBaseWalk.getLast? = some "dir = filepath.Dir(dir)" := by
  refine ⟨by decide, by decide, by decide, by decide, by decide, by decide, by decide, by decide⟩

end Oras.Props.C11
