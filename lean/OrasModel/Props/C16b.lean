/-
  C16, continued — the single-flight around token fetches (`syncutil.Once`, used per
  (host, scheme, scopes) by `concurrentCache.Set`).  Property theorems only; the invariant
  is proved in `Proofs/Once.lean` for any number of callers and every interleaving.
-/
import OrasModel.Proofs.Once
namespace Oras.Props.C16
open Oras

/-- **At most one fetch is in flight per key**: in every reachable state at most one caller
    is inside the fetch function, and while one is, nobody else can start. -/
theorem c16_once_single_flight {R : Type} (s : OnceSt R) (h : OnceReach s) :
    (∀ i j, s.pc i = .running → s.pc j = .running → i = j) ∧
    (∀ i, s.pc i = .running → s.token = false ∧ s.closed = false) :=
  ⟨(onceInv_reach s h).oneRunner, (onceInv_reach s h).runnerExcl⟩

/-- **Requests that waited on the same fetch share its result**: whoever returns a result
    returns the one stored outcome — two callers can never report different results — and
    at most one caller is told it ran the fetch itself. -/
theorem c16_once_shared_result {R : Type} (s : OnceSt R) (h : OnceReach s) :
    (∀ i j fi fj ri rj, s.pc i = .done fi (some ri) → s.pc j = .done fj (some rj) → ri = rj) ∧
    (∀ i j r r', s.pc i = .done true r → s.pc j = .done true r' → i = j) := by
  have inv := onceInv_reach s h
  refine ⟨?_, inv.oneFirst⟩
  intro i j fi fj ri rj hi hj
  have h1 := (inv.shared i fi ri hi).2
  have h2 := (inv.shared j fj rj hj).2
  rw [h1] at h2
  exact Option.some.inj h2

/-- **A cancelled fetcher hands over**: the token is never lost — in every reachable state
    either it is available, or somebody is fetching, or the outcome is stored — so a waiting
    caller can always make progress (take the token or read the outcome) once the current
    fetch ends; and a stored outcome is never overwritten by a second fetch. -/
theorem c16_once_handover {R : Type} (s : OnceSt R) (h : OnceReach s) :
    (s.token = true ∨ s.closed = true ∨ ∃ i, s.pc i = .running) ∧
    (s.closed = true → s.token = false ∧ (∀ i, s.pc i ≠ .running) ∧ s.result.isSome) :=
  ⟨(onceInv_reach s h).noLoss, (onceInv_reach s h).closedExcl⟩

/-- Non-vacuity: caller 0 takes the token and is cancelled, caller 1 takes over and stores
    7, caller 2 reads it. -/
example : ∃ s : OnceSt Nat, OnceReach s ∧ s.pc 0 = .done false none ∧ s.pc 1 = .done true (some 7) ∧
    s.pc 2 = .done false (some 7) := by
  let s0 := OnceSt.init Nat
  let s1 : OnceSt Nat := { s0 with token := false, pc := fun j => if j = 0 then .running else s0.pc j }
  let s2 : OnceSt Nat := { s1 with token := true, pc := fun j => if j = 0 then .done false none else s1.pc j }
  let s3 : OnceSt Nat := { s2 with token := false, pc := fun j => if j = 1 then .running else s2.pc j }
  let s4 : OnceSt Nat := { s3 with closed := true, result := some 7, pc := fun j => if j = 1 then .done true (some 7) else s3.pc j }
  let s5 : OnceSt Nat := { s4 with pc := fun j => if j = 2 then .done false s4.result else s4.pc j }
  refine ⟨s5, ?_, by rfl, by rfl, by rfl⟩
  have r1 : OnceReach s1 := .step .init (.take s0 0 rfl rfl rfl)
  have r2 : OnceReach s2 := .step r1 (.handOver s1 0 rfl)
  have r3 : OnceReach s3 := .step r2 (.take s2 1 rfl rfl rfl)
  have r4 : OnceReach s4 := .step r3 (.finish s3 1 7 rfl)
  exact .step r4 (.observe s4 2 rfl rfl)

end Oras.Props.C16
