/-
  C19 — PackManifest produces a valid, self-consistent, pushable manifest.
  Property theorems only.  Model: `Model/Pack.lean`; media-type grammar: the regex tree
  regenerated from `pack.go` (`Gen/Regex.lean`).
-/
import OrasModel.Model.Pack
import OrasModel.Proofs.Re
import OrasModel.Gen.Regex
import OrasModel.Proofs.ReLen
namespace Oras.Props.C19
open Oras

/-- **Rejected before anything is pushed**: an invalid media type, a subject with version
    1.0 and a missing artifact type leave the target untouched — no existence check, no
    push — for every input. -/
theorem c19_reject_before_push (i : PackIn) (e : PackErr) (h : (pack i).2 = .error e)
    (he : e = .unsupportedSubject ∨ e = .invalidMediaType ∨ e = .missingArtifactType) :
    (pack i).1 = [] := by
  obtain ⟨ver, at_, cfg, le, subj, cr, tc, eb⟩ := i
  rcases he with he | he | he <;> subst he <;>
  cases ver <;> cases at_ <;> cases cfg <;> cases le <;> cases subj <;> cases cr <;> cases tc <;> cases eb <;>
    (try (rename_i c; obtain ⟨m, b⟩ := c; cases m <;> cases b)) <;>
    first | rfl | (simp [pack, inventBlob] at h)

/-- **A malformed created time never yields a manifest push** (nor a success). -/
theorem c19_bad_created (i : PackIn) (h : i.created = .malformed) :
    PackEv.pushManifest ∉ (pack i).1 ∧ ∀ o, (pack i).2 ≠ .ok o := by
  obtain ⟨ver, at_, cfg, le, subj, cr, tc, eb⟩ := i
  simp only at h
  subst h
  cases ver <;> cases at_ <;> cases cfg <;> cases le <;> cases subj <;> cases tc <;> cases eb <;>
    (try (rename_i c; obtain ⟨m, b⟩ := c; cases m <;> cases b)) <;>
    (constructor <;> simp [pack, inventBlob])

/-- **Closure of what the function invents**: on success, an invented config (and an
    invented placeholder layer) is present in the target before the manifest is pushed —
    it was pushed, or found present — and the manifest push is the last event. -/
theorem c19_closure (i : PackIn) (o : PackOut) (h : (pack i).2 = .ok o) :
    (pack i).1.getLast? = some .pushManifest ∧
    (o.configInvented = true →
      (PackEv.pushConfig ∈ (pack i).1 ∨ (PackEv.existsConfig ∈ (pack i).1 ∧ i.emptyBlobPresent = true))) ∧
    (o.layerPlaceholder = true → o.configInvented = false →
      (PackEv.pushLayer ∈ (pack i).1 ∨ (PackEv.existsLayer ∈ (pack i).1 ∧ i.emptyBlobPresent = true))) := by
  obtain ⟨ver, at_, cfg, le, subj, cr, tc, eb⟩ := i
  cases ver <;> cases at_ <;> cases cfg <;> cases le <;> cases subj <;> cases cr <;> cases tc <;> cases eb <;>
    (try (rename_i c; obtain ⟨m, b⟩ := c; cases m <;> cases b)) <;>
    simp [pack, inventBlob] at h ⊢ <;> (try (subst h; simp))

/-- **Requested fields**: subject and artifact type are carried exactly when given
    (version 1.1), the placeholder layer appears exactly when no layer was given, and the
    clock is read only when no `created` annotation was supplied (determinism). -/
theorem c19_fields (i : PackIn) (o : PackOut) (h : (pack i).2 = .ok o) :
    (i.ver = .v11 → o.hasSubject = i.subject ∧ o.layerPlaceholder = i.layersEmpty ∧
      o.artifactTypeSet = decide (i.artifactType ≠ .empty)) ∧
    (i.ver = .v10 → o.hasSubject = false ∧ o.layerPlaceholder = false) ∧
    (o.createdFilled = decide (i.created = .absent)) ∧
    (o.configInvented = i.config.isNone) := by
  obtain ⟨ver, at_, cfg, le, subj, cr, tc, eb⟩ := i
  cases ver <;> cases at_ <;> cases cfg <;> cases le <;> cases subj <;> cases cr <;> cases tc <;> cases eb <;>
    (try (rename_i c; obtain ⟨m, b⟩ := c; cases m <;> cases b)) <;>
    simp [pack, inventBlob] at h ⊢ <;> (try (subst h; simp))

/-- **Media types**: every string the generated `mediaTypeRegexp` accepts is made of the
    RFC 6838 restricted-name characters and `/` only. -/
theorem c19_mediatype_chars (s : List Char) (h : Gen.mediaTypeRe.accepts s = true) :
    ∀ c ∈ s, c.isAlphanum ∨ c ∈ ['!', '#', '$', '&', '^', '_', '.', '+', '-', '/'] := by
  intro c hc
  have hin := Re.accepts_alphabet s Gen.mediaTypeRe h c hc
  -- the alphabet of the generated tree, as a decidable check on code points
  have key : ∀ n : Nat, n < 128 →
      Re.inRanges Gen.mediaTypeRe.alphabet (Char.ofNat n) = true →
      ((Char.ofNat n).isAlphanum ∨ (Char.ofNat n) ∈ ['!', '#', '$', '&', '^', '_', '.', '+', '-', '/']) := by
    decide
  have hlt : c.toNat < 128 := by
    -- every range of the tree ends below 128
    have : ∀ r ∈ Gen.mediaTypeRe.alphabet, r.2 < 128 := by decide
    simp only [Re.inRanges, List.any_eq_true, Bool.and_eq_true, decide_eq_true_eq] at hin
    obtain ⟨r, hr, _, h2⟩ := hin
    have := this r hr
    omega
  have hc' : Char.ofNat c.toNat = c := Char.ofNat_toNat c
  have := key c.toNat hlt (by rw [hc']; exact hin)
  rw [hc'] at this
  exact this

/-- Non-vacuity: the three documented rejections and a success with placeholders. -/
example :
    (pack ⟨.v10, .valid, none, true, true, .absent, true, false⟩).2 = .error .unsupportedSubject ∧
    (pack ⟨.v11, .empty, none, true, false, .absent, true, false⟩).2 = .error .missingArtifactType ∧
    (pack ⟨.v11, .invalid, none, true, false, .absent, true, false⟩) = ([], .error .invalidMediaType) ∧
    (pack ⟨.v11, .valid, none, true, false, .malformed, true, false⟩).1 = [.existsConfig, .pushConfig] ∧
    (pack ⟨.v11, .valid, none, true, false, .absent, true, false⟩).1 = [.existsConfig, .pushConfig, .pushManifest] := by
  refine ⟨by rfl, by rfl, by rfl, by rfl, by rfl⟩

/-- **RFC 6838 length rule, about the expression the source compiles**: an accepted media
    type has a type and a subtype of 1 to 127 characters each, so between 3 and 255
    characters in all. -/
theorem c19_mediatype_length (s : List Char) (h : Gen.mediaTypeRe.accepts s = true) :
    3 ≤ s.length ∧ s.length ≤ 255 := by
  have h1 := Re.minLen_sound Gen.mediaTypeRe s h
  have h2 := Re.maxLen_sound Gen.mediaTypeRe 255 (by decide) s h
  have hm : Re.minLen Gen.mediaTypeRe = 3 := by decide
  rw [hm] at h1
  exact ⟨h1, h2⟩

end Oras.Props.C19
