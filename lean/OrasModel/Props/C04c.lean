/-
  C04 — each node is claimed by exactly one worker (`Model/Tracker.lean`): the single-transfer
  clause rests on `TryCommit` being one atomic `LoadOrStore` keyed by the full descriptor.
-/
import OrasModel.Model.Tracker
import OrasModel.Gen.Facts
namespace Oras.Props.C04
open Oras Oras.Tracker

structure TInv (s : St) : Prop where
  uniq : ∀ i j, (s.ws i).committed = true → (s.ws j).committed = true → i = j
  storedIff : s.stored = true ↔ ∃ i, (s.ws i).committed = true
  noMid : ∀ i, (s.ws i).pc ≠ 1
  done : ∀ i, (s.ws i).committed = true → (s.ws i).pc = 2

theorem tinv_step (s : St) (i : Nat) (h : TInv s) : TInv (step true s i) := by
  obtain ⟨h1, h2, h3, h4⟩ := h
  unfold step
  simp only [if_true]
  split
  · split
    · constructor <;> simp only [fupd] <;> grind
    · constructor <;> simp only [fupd] <;> grind
  · rename_i h1'; exact absurd h1' (h3 i)
  · exact ⟨h1, h2, h3, h4⟩

/-- **At most one worker claims a node, in every schedule**, and the node is marked exactly
    when one did. -/
theorem c04_single_claim (sched : List Nat) :
    let s := run true init sched
    (∀ i j, (s.ws i).committed = true → (s.ws j).committed = true → i = j) ∧
    (s.stored = true ↔ ∃ i, (s.ws i).committed = true) := by
  intro s
  have h0 : TInv init := by constructor <;> simp [init]
  have : ∀ (l : List Nat) (s0 : St), TInv s0 → TInv (run true s0 l) := by
    intro l
    induction l with
    | nil => intro s0 h; exact h
    | cons a t ih => intro s0 h; unfold run; simp only [List.foldl_cons]; exact ih _ (tinv_step s0 a h)
  have h := this sched init h0
  exact ⟨h.uniq, h.storedIff⟩

/-- The seeded change C04/m10: with a separate `Load` and `Store`, two workers that both load
    before either stores both claim the node. -/
theorem c04_counterexample_split_claim :
    winners (run false init [0, 1, 0, 1]) 2 = 2 ∧ winners (run true init [0, 1, 0, 1]) 2 = 1 := by
  decide

/-- The source claims with one `LoadOrStore`, keyed by the descriptor (media type, digest, size). -/
theorem c04_tracker_source_facts :
    Gen.trackerCalls = ["descriptor.FromOCI", "t.status.LoadOrStore"] := by
  decide

end Oras.Props.C04
