/-
  C08, continued — predecessor relations after reopening.  Property theorems only; the work
  is done by `c07_reopen_exact` (`Props/C07b.lean`).
-/
import OrasModel.Props.C07b
namespace Oras.Props.C08
open Oras Oras.OciSt Oras.GMem

/-- **The reopened store has the same predecessor relation as the live one** whenever the
    live graph is exact for the stored manifests (C07) and every stored manifest is reached
    by some `index.json` entry — which holds for layouts this store wrote without pruning
    (every pushed manifest is an entry).  The second hypothesis is exactly what findings
    F13/F18 violate: a manifest no entry reaches is unknown after reopening. -/
theorem c08_reopen_predecessors (c : OciCfg) (st : OciSt) (rk : Node → Nat)
    (hrk : RankOK (succOf c st.blobs) rk) (fuel : Nat) (hfuel : ∀ e ∈ st.indexFile, rk e.1 < fuel)
    (hlive : ∀ k p, p ∈ st.graph.predecessors k ↔ (c.isMan p = true ∧ p ∈ st.blobs ∧ k ∈ c.succ p))
    (hlisted : ∀ p, c.isMan p = true → p ∈ st.blobs → ∃ e ∈ st.indexFile, ReachOf (succOf c st.blobs) e.1 p)
    (k p : Node) :
    p ∈ (st.reopen c fuel).graph.predecessors k ↔ p ∈ st.graph.predecessors k := by
  have h := Oras.Props.C07.c07_reopen_exact c st rk hrk fuel hfuel k p
  constructor
  · intro hp
    exact (hlive k p).mpr (h.1 hp)
  · intro hp
    obtain ⟨hm, hb, hk⟩ := (hlive k p).mp hp
    exact h.2 hm hb hk (hlisted p hm hb)

/-- F18 in the model: blob 0, manifest 1 over it, index 2 over the manifest; `index.json`
    lists only the (deleted) index's former sibling entries — here nothing — while the
    manifest's blob is still stored and the live graph still knows it.  The reopened store
    reports no predecessor for the blob: the hypothesis `hlisted` above is necessary. -/
theorem c08_counterexample_orphan_manifest :
    let c : OciCfg := { succ := fun n => if n = 1 then [0] else [], isMan := fun n => n == 1, subject := fun _ => none }
    let live : OciSt := { OciSt.empty with blobs := [0, 1], graph := GMem.empty.index 1 [0], indexFile := [] }
    live.graph.predecessors 0 = [1] ∧ (live.reopen c 5).graph.predecessors 0 = [] := by
  refine ⟨by rfl, by rfl⟩

end Oras.Props.C08
