/-
  C14 — "a repository's detected referrers capability never flips".  Property theorems only.
-/
import OrasModel.Model.Capability
import OrasModel.Gen.Facts
namespace Oras.Props.C14
open Oras Oras.Capability

/-- One call never changes a settled capability. -/
theorem c14_capability_step (s : State) (capable : Bool) (h : s ≠ .unknown) : (setCap s capable).1 = s := by
  cases s <;> simp_all [setCap]

/-- **The capability never flips**: once it is settled, no sequence of later calls - by any
    number of goroutines, in any order - changes it. -/
theorem c14_capability_stable (s : State) (calls : List Bool) (h : s ≠ .unknown) : run s calls = s := by
  induction calls generalizing s with
  | nil => rfl
  | cons c rest ih =>
    unfold run
    simp only [List.foldl_cons]
    rw [c14_capability_step s c h]
    exact ih s h

/-- The first call settles it, and a later contradicting call is told so. -/
theorem c14_capability_first_wins (c : Bool) (calls : List Bool) :
    run .unknown (c :: calls) = ofBool c ∧ ∀ c', (setCap (ofBool c) c').2 = (c' != c) := by
  constructor
  · unfold run
    simp only [List.foldl_cons]
    exact c14_capability_stable (ofBool c) calls (by cases c <;> simp [ofBool])
  · intro c'
    cases c <;> cases c' <;> simp [setCap, ofBool]

/-- **The source writes the cell in one place only**, by a compare-and-swap from "unknown". -/
theorem c14_capability_source_facts :
    Gen.referrersStateUses =
      ["SetReferrersCapability:atomic.CompareAndSwapInt32:referrersStateUnknown", "loadReferrersState:atomic.LoadInt32"] := by
  decide

end Oras.Props.C14
