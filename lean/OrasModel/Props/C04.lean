/-
  C04 — Copy work accounting: single transfer, ordered callbacks (proved on the per-node
  system of `Model/Copy.lean`); bounded concurrency (permit accounting of
  `Model/Permits.lean`).  Property theorems only.

  Reading of the labels: `claim n` = the unique successful `TryCommit`; `existsT n` =
  OnCopySkipped; `ready n` = PreCopy (the node's successors have all finished);
  `push n` = Fetch + Push (or Mount / PushReference) + PostCopy/OnMounted;
  `pushLate`/`fail` = an error after / before the content was stored.
-/
import OrasModel.Proofs.CopyOrder
namespace Oras.Props.C04
open Oras

/-- **Everything at most once**: in any run (any interleaving, any faults), for each node
    there is at most one `claim`, at most one `existsF`, at most one `ready` (PreCopy) and
    at most one terminal event among `existsT` (OnCopySkipped), `push` (PostCopy),
    `pushLate`, `fail`.  Hence no blob or manifest is pushed twice, no node is both skipped
    and copied, and every PreCopy is followed by at most one PostCopy. -/
theorem c04_labels_once (c : CopyCfg) (dst0 : List Nat) (ls : List Label) (s : CopySt)
    (hr : run? c (CopySt.init dst0) ls = some s) :
    (ls.map (fun l => (l.node, l.postRank))).Nodup :=
  labels_once c ls _ s hr

/-- Single owner: a node is claimed at most once per run (with the shared tracker of
    `ExtendedCopyGraph`, per call). -/
theorem c04_single_owner (c : CopyCfg) (dst0 : List Nat) (ls : List Label) (s : CopySt) (n : Node)
    (hr : run? c (CopySt.init dst0) ls = some s) :
    (ls.filter (fun l => l == .claim n)).length ≤ 1 := by
  have hnd := c04_labels_once c dst0 ls s hr
  induction ls generalizing s dst0 with
  | nil => simp
  | cons l ls ih =>
    -- count through the injective key map
    have key : ∀ (ls : List Label), (ls.map (fun l => (l.node, l.postRank))).Nodup →
        (ls.filter (fun l => l == Label.claim n)).length ≤ 1 := by
      intro ls
      induction ls with
      | nil => simp
      | cons a as iha =>
        intro hnd
        simp only [List.map_cons, List.nodup_cons] at hnd
        by_cases ha : a = .claim n
        · subst ha
          have : as.filter (fun l => l == Label.claim n) = [] := by
            apply List.filter_eq_nil_iff.mpr
            intro b hb hbe
            have : b = .claim n := by simpa using hbe
            subst this
            exact hnd.1 (List.mem_map_of_mem hb)
          simp [this]
        · have : (a == Label.claim n) = false := by simpa using ha
          simp only [List.filter_cons, this]
          exact iha hnd.2
    exact key (l :: ls) hnd

/-- No node is pushed more than once (successfully or failing late). -/
theorem c04_push_once (c : CopyCfg) (dst0 : List Nat) (ls : List Label) (s : CopySt) (n : Node)
    (hr : run? c (CopySt.init dst0) ls = some s) :
    (ls.filter (fun l => l == .push n || l == .pushLate n)).length ≤ 1 := by
  have hnd := c04_labels_once c dst0 ls s hr
  have key : ∀ (ls : List Label), (ls.map (fun l => (l.node, l.postRank))).Nodup →
      (ls.filter (fun l => l == Label.push n || l == Label.pushLate n)).length ≤ 1 := by
    intro ls
    induction ls with
    | nil => simp
    | cons a as iha =>
      intro hnd
      simp only [List.map_cons, List.nodup_cons] at hnd
      by_cases ha : (a == Label.push n || a == Label.pushLate n) = true
      · have hkey : (a.node, a.postRank) = (n, 4) := by
          simp only [Bool.or_eq_true, beq_iff_eq] at ha
          rcases ha with ha | ha <;> subst ha <;> rfl
        have : as.filter (fun l => l == Label.push n || l == Label.pushLate n) = [] := by
          apply List.filter_eq_nil_iff.mpr
          intro b hb hbe
          have hbk : (b.node, b.postRank) = (n, 4) := by
            simp only [Bool.or_eq_true, beq_iff_eq] at hbe
            rcases hbe with hbe | hbe <;> subst hbe <;> rfl
          apply hnd.1
          rw [hkey, ← hbk]
          exact List.mem_map_of_mem hb
        simp [ha, this]
      · have : (a == Label.push n || a == Label.pushLate n) = false := by simpa using ha
        simp only [List.filter_cons, this]
        exact iha hnd.2
  exact key ls hnd

/-- **PreCopy before PostCopy**: whenever `push n` fires, `ready n` fired earlier. -/
theorem c04_precopy_before_postcopy (c : CopyCfg) (dst0 : List Nat) (pre : List Label) (n : Node)
    (s : CopySt) (hr : run? c (CopySt.init dst0) (pre ++ [.push n]) = some s) :
    Label.ready n ∈ pre := by
  rw [run_append] at hr
  cases h1 : run? c (CopySt.init dst0) pre with
  | none => simp [h1] at hr
  | some s1 =>
    simp only [h1, Option.bind, run?] at hr
    have hcop : s1.st n = .copying := by
      cases hs : step? c s1 (.push n) with
      | none => simp [hs] at hr
      | some s2 =>
        simp only [step?] at hs
        split at hs
        · assumption
        · cases hs
    exact (provenance c dst0 pre s1 h1 n).1 hcop

/-- **A node's PostCopy comes after the terminal notification of each successor**: when
    `push p` fires, every successor `k` already had its `push k` (PostCopy/OnMounted) or
    `existsT k` (OnCopySkipped). -/
theorem c04_postcopy_after_successors (c : CopyCfg) (dst0 : List Nat)
    (pre : List Label) (p : Node) (s : CopySt)
    (hr : run? c (CopySt.init dst0) (pre ++ [.push p]) = some s) :
    ∀ k ∈ c.kids p, Label.push k ∈ pre ∨ Label.existsT k ∈ pre := by
  have hready := c04_precopy_before_postcopy c dst0 pre p s hr
  -- split the prefix at `ready p`
  obtain ⟨a, b, hab⟩ := List.append_of_mem hready
  have hpre : run? c (CopySt.init dst0) pre ≠ none := by
    intro hn
    rw [run_append, hn] at hr
    simp at hr
  rw [hab, run_append] at hpre
  cases ha : run? c (CopySt.init dst0) a with
  | none => simp [ha] at hpre
  | some sa =>
    simp only [ha, Option.bind, run?] at hpre
    cases hst : step? c sa (.ready p) with
    | none => simp [hst] at hpre
    | some sb =>
      intro k hkk
      have hdone : sa.st k = .done := by
        simp only [step?] at hst
        split at hst
        · rename_i hc
          have := List.all_eq_true.mp hc.2 k hkk
          simpa using this
        · cases hst
      have := (provenance c dst0 a sa ha k).2 hdone
      rw [hab]
      rcases this with h' | h'
      · exact Or.inl (List.mem_append_left _ h')
      · exact Or.inr (List.mem_append_left _ h')

/-- A failing callback (any `fail` / `pushLate`) aborts the copy: success is not reported. -/
theorem c04_callback_error_aborts (c : CopyCfg) (s s1 s' : CopySt) (n : Node) (ls : List Label)
    (univ : List Node) (hn : n ∈ univ)
    (hf : step? c s (.fail n) = some s1 ∨ step? c s (.pushLate n) = some s1)
    (hr : run? c s1 ls = some s') : retOk c s' univ = false := by
  have hfailed : s1.st n = .failed := by
    rcases hf with hf | hf <;> simp only [step?] at hf <;> split at hf <;>
      first
      | (injection hf with hf; subst hf; simp)
      | cases hf
  have hfin : s'.st n = .failed := failed_stays c n ls s1 s' hr hfailed
  unfold retOk
  have : (univ.all fun n => decide (s'.st n = .idle ∨ s'.st n = .done)) = false := by
    apply Bool.eq_false_iff.mpr
    intro hall
    have := List.all_eq_true.mp hall n hn
    simp [hfin] at this
  rw [this, Bool.and_false]

/-- Non-vacuity: a shared child, a skipped node and ordered callbacks in one run. -/
example :
    let c : CopyCfg := { kids := fun n => if n = 0 then [1, 2] else if n = 1 then [3] else if n = 2 then [3] else [],
                         dkey := id, roots := [0] }
    let tr : List Label := [.claim 0, .existsF 0, .claim 1, .existsF 1, .claim 2, .existsT 2, .claim 3,
      .existsF 3, .ready 3, .push 3, .ready 1, .push 1, .ready 0, .push 0]
    (run? c (CopySt.init [2, 3]) tr).isSome = false ∧   -- 3 is present: existsF 3 is not enabled
    (run? c (CopySt.init [2]) tr).isSome = true := by
  decide

end Oras.Props.C04
