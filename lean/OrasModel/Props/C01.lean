/-
  C01 — Copy replicates the whole rooted DAG and tags the root.
  Property theorems only.  Model: `Model/Copy.lean` (`copy.go` `copyGraph`), helper lemmas:
  `Proofs/Copy.lean`.  Facts regenerated from /repo: `Gen/Facts.lean`.
-/
import OrasModel.Proofs.Copy
import OrasModel.Gen.Facts
import OrasModel.Model.CopyRoot
namespace Oras.Props.C01
open Oras

/-- **Closure on success** — for every finite or infinite graph `kids`, every destination
    keying `dkey` satisfying key consistency, every link-closed initial destination, and
    every interleaving of the per-node steps (any trace `ls`, any number of roots, any
    concurrency): if every root finished, every node reachable from a root is present. -/
theorem c01_closure (c : CopyCfg) (hk : KeyCons c) (dst0 : List Nat) (h0 : ClosedKeys c dst0)
    (ls : List Label) (s : CopySt) (hr : run? c (CopySt.init dst0) ls = some s)
    (hroots : ∀ r ∈ c.roots, s.st r = .done) :
    ∀ n, Reachable c n → present c s n = true := by
  have inv := copyInv_run c hk ls _ s (copyInv_init c dst0 h0) hr
  intro n hn
  induction hn with
  | root hr' => exact inv.done_present _ (hroots _ hr')
  | kid _ hkk ih => exact inv.closed _ ih _ hkk

/-- Key-addressed destinations (memory store, registry manifests by media type) satisfy
    key consistency outright. -/
theorem c01_keycons_of_injective (c : CopyCfg) (hinj : ∀ m n, c.dkey m = c.dkey n → m = n) :
    KeyCons c := by
  intro m n h k hkk
  have := hinj m n h
  subst this
  exact ⟨k, hkk, rfl⟩

/-- What was already in the destination stays there. -/
theorem c01_preexisting_kept (c : CopyCfg) (ls : List Label) (s s' : CopySt)
    (hr : run? c s ls = some s') (x : Nat) (hx : s.dst.contains x = true) :
    s'.dst.contains x = true := by
  induction ls generalizing s with
  | nil => simp [run?] at hr; subst hr; exact hx
  | cons l ls ih =>
    simp only [run?] at hr
    cases hs : step? c s l with
    | none => simp [hs] at hr
    | some s1 =>
      simp only [hs] at hr
      exact ih s1 hr (dst_mono_step c s s1 l hs x hx)

/-- **Without key consistency the property is false** (finding F10): an index listing the
    same bytes once as `application/octet-stream` (node 1) and once as an image manifest
    (node 2, children 3 and 4), digest-keyed destination (`dkey 1 = dkey 2`).  The run
    succeeds — every step is enabled and the root is done — and the manifest's children
    are absent.  The harness replays this script on the real `oras.CopyGraph`. -/
def f10cfg : CopyCfg :=
  { kids := fun n => if n = 0 then [1, 2] else if n = 2 then [3, 4] else []
    dkey := fun n => if n = 2 then 1 else n
    roots := [0] }

def f10trace : List Label :=
  [.claim 0, .existsF 0, .claim 1, .existsF 1, .ready 1, .push 1,
   .claim 2, .existsT 2, .ready 0, .push 0]

theorem c01_counterexample_two_media_types :
    ∃ s, run? f10cfg (CopySt.init []) f10trace = some s ∧ s.st 0 = .done ∧
      retOk f10cfg s [0, 1, 2, 3, 4] = true ∧ present f10cfg s 3 = false ∧ present f10cfg s 4 = false := by
  refine ⟨_, rfl, ?_⟩
  decide

/-! ### Obligations on facts regenerated from /repo -/

/-- `copyGraph` follows exactly config, layers, blobs, manifests and subject: the link
    fields of `content.Successors` for every manifest kind, and foreign layers are the four
    non-distributable media types. -/
theorem c01_successors_table :
    Gen.successorsCases.map (·.2) =
      [["Config", "Layers"], ["Subject", "Config", "Layers"], ["Manifests"],
       ["Subject", "Manifests"], ["Subject", "Blobs"]] := by rfl

theorem c01_foreign_table : Gen.foreignTypes.length = 4 ∧
    Gen.foreignTypes.all (fun t => !Gen.manifestTypes.contains t) = true := by
  constructor
  · rfl
  · decide

/-- Non-vacuity of `c01_closure`: a diamond with a shared blob copied with key-addressed
    destination; the hypotheses hold and the conclusion is exercised. -/
example :
    let c : CopyCfg := { kids := fun n => if n = 0 then [1, 2] else if n = 1 then [3] else if n = 2 then [3, 3] else [],
                         dkey := id, roots := [0] }
    let tr : List Label := [.claim 0, .existsF 0, .claim 1, .claim 2, .existsF 2, .existsF 1, .claim 3,
      .existsF 3, .ready 3, .push 3, .ready 1, .ready 2, .push 2, .push 1, .ready 0, .push 0]
    (run? c (CopySt.init []) tr).isSome = true ∧
    ((run? c (CopySt.init []) tr).map fun s => [0, 1, 2, 3].all (present c s)) = some true := by
  decide

/-! ### Copy tags the root -/

/-- **The root is tagged exactly once on every successful `Copy`**, whichever of the four
    paths it takes (destination tags / pushes by reference; root copied / already present):
    exactly one tagging call is made, it comes after the root's content is in the
    destination (already present, pushed just before, or carried by `PushReference` itself),
    and the reference used is the destination reference, or the source reference when that
    was left blank. -/
theorem c01_root_tagged (i : RootIn) :
    ((rootFlow i).filter RootEv.tags).length = 1 ∧
    (i.present = true ∨ (rootFlow i).contains .pushReference = true ∨
      ∃ pre post, rootFlow i = pre ++ [.push, .tag] ++ post) ∧
    (∀ src dst : String, (dst ≠ "" → effectiveRef src dst = dst) ∧ (dst = "" → effectiveRef src dst = src)) := by
  refine ⟨?_, ?_, ?_⟩
  · cases i with | mk r p => cases r <;> cases p <;> rfl
  · cases i with
    | mk r p =>
      cases r <;> cases p
      · exact Or.inr (Or.inr ⟨[.exists_, .userPreCopy], [.userPostCopy], rfl⟩)
      · exact Or.inl rfl
      · exact Or.inr (Or.inl rfl)
      · exact Or.inl rfl
  · intro src dst
    unfold effectiveRef
    constructor
    · intro h; simp [h]
    · intro h; simp [h]

/-- The caller's `PostCopy` for the root runs after the root is tagged (it can rely on the
    reference resolving), and `OnCopySkipped` before it. -/
theorem c01_root_hook_order :
    rootFlow ⟨false, false⟩ = [.exists_, .userPreCopy, .push, .tag, .userPostCopy] ∧
    rootFlow ⟨false, true⟩ = [.exists_, .userSkipped, .tag] := ⟨rfl, rfl⟩

end Oras.Props.C01
