/-
  C14 — Client-maintained referrers indexes lose no update under concurrency.
  Property theorems only: the pure update function (`Model/Referrers.lean`).  The batching
  protocol (`syncutil.Merge`) and the end-to-end no-lost-update claim are decided by
  correspondence (stress runs against the registry model), see DESIGN.md.
-/
import OrasModel.Model.Referrers
namespace Oras.Props.C14
open Oras

def NoDupKeys (l : List RDesc) : Prop := (l.map (·.key)).Nodup
def NoEmpty (l : List RDesc) : Prop := ∀ r ∈ l, r.key ≠ 0

theorem dedupRefs_inv (acc rs : List RDesc) (h1 : NoDupKeys acc) (h2 : NoEmpty acc) :
    NoDupKeys (dedupRefs acc rs) ∧ NoEmpty (dedupRefs acc rs) := by
  induction rs generalizing acc with
  | nil => exact ⟨h1, h2⟩
  | cons r rs ih =>
    unfold dedupRefs
    split
    · exact ih acc h1 h2
    · rename_i hc
      simp only [not_or, List.any_eq_true, decide_eq_true_eq, not_exists, not_and] at hc
      apply ih
      · unfold NoDupKeys
        rw [List.map_append, List.nodup_append]
        refine ⟨h1, by simp, ?_⟩
        intro a ha b hb
        simp only [List.map_cons, List.map_nil, List.mem_singleton] at hb
        subst hb
        obtain ⟨x, hx, hxa⟩ := List.mem_map.mp ha
        intro e
        exact hc.2 x hx (by rw [hxa, e])
      · intro x hx
        rcases List.mem_append.mp hx with h | h
        · exact h2 x h
        · simp only [List.mem_singleton] at h; subst h; exact hc.1

theorem applyChange_inv (cur : List RDesc) (c : RChange) (h1 : NoDupKeys cur) (h2 : NoEmpty cur)
    (hc : match c with | .add d => d.key ≠ 0 | .remove _ => True) :
    NoDupKeys (applyChange cur c) ∧ NoEmpty (applyChange cur c) := by
  cases c with
  | add d =>
    simp only at hc
    simp only [applyChange]
    by_cases hn : (cur.any fun x => decide (x.key = d.key)) = true
    · simp only [hn, if_true]; exact ⟨h1, h2⟩
    · simp only [hn, Bool.false_eq_true, if_false]
      simp only [List.any_eq_true, decide_eq_true_eq, not_exists, not_and] at hn
      constructor
      · unfold NoDupKeys
        rw [List.map_append, List.nodup_append]
        refine ⟨h1, by simp, ?_⟩
        intro a ha b hb
        simp only [List.map_cons, List.map_nil, List.mem_singleton] at hb
        subst hb
        obtain ⟨x, hx, hxa⟩ := List.mem_map.mp ha
        intro e
        exact hn x hx (by rw [hxa, e])
      · intro x hx
        rcases List.mem_append.mp hx with h | h
        · exact h2 x h
        · simp only [List.mem_singleton] at h; subst h; exact hc
  | remove d =>
    simp only [applyChange]
    constructor
    · unfold NoDupKeys
      exact List.Nodup.sublist (List.Sublist.map _ List.filter_sublist) h1
    · intro x hx; exact h2 x (List.mem_filter.mp hx).1

/-- **The updated index has no duplicate and no empty entry** — whatever the old index
    contained (duplicates, empty descriptors) and whatever the batch of changes. -/
theorem c14_apply_clean (refs : List RDesc) (changes : List RChange)
    (hc : ∀ c ∈ changes, match c with | .add d => d.key ≠ 0 | .remove _ => True)
    (res : List RDesc) (h : applyReferrerChanges refs changes = some res) :
    NoDupKeys res ∧ NoEmpty res := by
  unfold applyReferrerChanges at h
  simp only at h
  split at h
  · cases h
  · injection h with h
    subst h
    have base := dedupRefs_inv [] refs (by simp [NoDupKeys]) (by intro r hr; cases hr)
    have : ∀ (cs : List RChange) (cur : List RDesc), (∀ c ∈ cs, match c with | .add d => d.key ≠ 0 | .remove _ => True) →
        NoDupKeys cur → NoEmpty cur → NoDupKeys (cs.foldl applyChange cur) ∧ NoEmpty (cs.foldl applyChange cur) := by
      intro cs
      induction cs with
      | nil => intro cur _ h1 h2; exact ⟨h1, h2⟩
      | cons c cs ih =>
        intro cur hcs h1 h2
        simp only [List.foldl_cons]
        obtain ⟨a, b⟩ := applyChange_inv cur c h1 h2 (hcs c List.mem_cons_self)
        exact ih _ (fun c' hc' => hcs c' (List.mem_cons_of_mem _ hc')) a b
    exact this changes _ hc base.1 base.2

/-- **One change does what it says** on the key set: after `add d`, `d.key` is listed and
    nothing else changes; after `remove d`, `d.key` is gone and nothing else changes. -/
theorem c14_change_keys (cur : List RDesc) (c : RChange) (k : Nat) :
    (applyChange cur c).any (·.key = k) =
      match c with
      | .add d => decide (k = d.key) || cur.any (·.key = k)
      | .remove d => !decide (k = d.key) && cur.any (·.key = k) := by
  cases c with
  | add d =>
    simp only [applyChange]
    by_cases h : cur.any (·.key = d.key) = true
    · simp only [h, if_true]
      by_cases e : k = d.key
      · subst e; simp [h]
      · simp [e]
    · simp only [h, Bool.false_eq_true, if_false, List.any_append, List.any_cons, List.any_nil, Bool.or_false]
      by_cases e : k = d.key
      · subst e; simp
      · have : ¬ d.key = k := fun e' => e e'.symm
        simp [e, this]
  | remove d =>
    simp only [applyChange]
    by_cases e : k = d.key
    · subst e
      simp only [decide_true, Bool.not_true, Bool.false_and]
      apply Bool.eq_false_iff.mpr
      intro h
      obtain ⟨x, hx, hxk⟩ := List.any_eq_true.mp h
      have := (List.mem_filter.mp hx).2
      simp at this hxk
      exact this hxk
    · simp only [e, decide_false, Bool.not_false, Bool.true_and]
      apply Bool.eq_iff_iff.mpr
      simp only [List.any_eq_true, List.mem_filter, decide_eq_true_eq, ne_eq, decide_not,
        Bool.not_eq_eq_eq_not, Bool.not_true, decide_eq_false_iff_not]
      constructor
      · rintro ⟨x, ⟨hx, _⟩, hk⟩; exact ⟨x, hx, hk⟩
      · rintro ⟨x, hx, hk⟩
        exact ⟨x, ⟨hx, by rw [hk]; exact e⟩, hk⟩

/-- **Surviving entries keep artifact type and annotations**: a change never alters the
    payload of an entry it does not remove. -/
theorem c14_payload_kept (cur : List RDesc) (c : RChange) (r : RDesc) (hr : r ∈ cur)
    (hk : match c with | .remove d => d.key ≠ r.key | .add _ => True) : r ∈ applyChange cur c := by
  cases c with
  | add d =>
    simp only [applyChange]
    split
    · exact hr
    · exact List.mem_append_left _ hr
  | remove d =>
    simp only [applyChange, List.mem_filter, ne_eq, decide_not, Bool.not_eq_eq_eq_not, Bool.not_true,
      decide_eq_false_iff_not]
    exact ⟨hr, fun e => hk e.symm⟩

/-- **"No update" is reported only when nothing would change**: the old index was clean
    (no empty entry, no duplicate) and the resulting key set is the old one. -/
theorem c14_no_update_iff_unchanged (refs : List RDesc) (changes : List RChange)
    (h : applyReferrerChanges refs changes = none) :
    (dedupRefs [] refs).length = refs.length ∧
    (changes.foldl applyChange (dedupRefs [] refs)).length = refs.length ∧
    ∀ r ∈ refs, (changes.foldl applyChange (dedupRefs [] refs)).any (·.key = r.key) = true := by
  unfold applyReferrerChanges at h
  simp only at h
  split at h
  · rename_i hc
    simp only [ne_eq, decide_not, Bool.not_not, Bool.and_eq_true, decide_eq_true_eq, List.all_eq_true] at hc
    exact ⟨hc.1, hc.2.1, hc.2.2⟩
  · cases h

/-- Non-vacuity: a dirty old index (duplicate, empty entry), an add and a remove. -/
example :
    applyReferrerChanges [⟨1, 10⟩, ⟨1, 11⟩, ⟨0, 0⟩, ⟨2, 20⟩] [.add ⟨3, 30⟩, .remove ⟨2, 0⟩] = some [⟨1, 10⟩, ⟨3, 30⟩] ∧
    applyReferrerChanges [⟨1, 10⟩, ⟨2, 20⟩] [.add ⟨1, 99⟩] = none ∧
    applyReferrerChanges [⟨1, 10⟩] [.remove ⟨1, 0⟩] = some [] := by
  decide

end Oras.Props.C14
