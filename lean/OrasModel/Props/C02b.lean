/-
  C02, continued — progress of the copy under its concurrency limiter (`Model/CopyP.lean`).
  Property theorems only; lemmas in `Proofs/CopyP.lean`.  Same namespace as `Props/C02.lean`.
-/
import OrasModel.Proofs.CopyP
import OrasModel.Gen.Facts
namespace Oras.Props.C02
open Oras

/-- **Permit conservation**: in every state a run reaches, the permits left in the semaphore
    plus the tasks that hold one (between spawn and the dispatch of successors, and while
    copying) add up to the limit; nodes never touched stay idle. -/
theorem c02_permits_conserved (c : CopyCfg) (limit : Nat) (univ : List Node) (hnd : univ.Nodup)
    (ls : List PLabel) (hls : ∀ l ∈ ls, l.node ∈ univ) (s : PSt)
    (hr : prun? c (PSt.init limit) ls = some s) :
    s.avail + holders s univ = limit := by
  have := (prun_facts c univ hnd ls _ s hls hr).1
  rw [holders_init] at this
  simpa [PSt.init] using this

/-- **Every run terminates**: a run over a universe of `N` nodes has at most `4·N` steps
    (every step moves one node forward in idle → claimed → waiting → copying → done/failed). -/
theorem c02_terminates (c : CopyCfg) (limit : Nat) (univ : List Node) (hnd : univ.Nodup)
    (ls : List PLabel) (hls : ∀ l ∈ ls, l.node ∈ univ) (s : PSt)
    (hr : prun? c (PSt.init limit) ls = some s) :
    ls.length ≤ 4 * univ.length := by
  have h1 := (prun_facts c univ hnd ls _ s hls hr).2
  rw [measure_init] at h1
  have h2 := measure_le s univ
  omega

/-- Nodes outside the universe of a run are never touched. -/
theorem untouched_idle (c : CopyCfg) (univ : List Node) :
    ∀ (ls : List PLabel) (s s' : PSt), (∀ l ∈ ls, l.node ∈ univ) → prun? c s ls = some s' →
      ∀ m, m ∉ univ → s'.st m = s.st m := by
  intro ls
  induction ls with
  | nil => intro s s' _ h m _; simp only [prun?] at h; injection h with h; rw [h]
  | cons l ls ih =>
    intro s s' hmem h m hm
    simp only [prun?] at h
    cases hs : pstep? c s l with
    | none => rw [hs] at h; cases h
    | some s1 =>
      rw [hs] at h
      obtain ⟨v, hv⟩ := pstep_st c s s1 l hs
      have hne : m ≠ l.node := fun e => hm (e ▸ hmem l List.mem_cons_self)
      rw [ih s1 s' (fun x hx => hmem x (List.mem_cons_of_mem _ hx)) h m hm, hv, fupd_other _ _ _ _ hne]

/-- **No deadlock.**  With a limit of at least one permit, in every state a run reaches in
    which nothing has failed, as long as some node is not done a step other than a failure is
    enabled: a task that holds a permit can always finish what it holds it for, and when no
    task holds one a permit is free for the deepest unfinished node.  (`rk` witnesses that the
    graph is acyclic.)  With `c02_terminates`: without faults, every maximal run ends with
    every started node done. -/
theorem c02_no_deadlock (c : CopyCfg) (rk : Node → Nat) (hrk : ∀ n k, k ∈ c.kids n → rk k < rk n)
    (limit : Nat) (hlimit : 0 < limit) (univ : List Node) (hnd : univ.Nodup)
    (ls : List PLabel) (hls : ∀ l ∈ ls, l.node ∈ univ) (s : PSt)
    (hr : prun? c (PSt.init limit) ls = some s)
    (hnofail : ∀ m, s.st m ≠ .failed) (n : Node) (hn : s.st n ≠ .done) :
    ∃ l : PLabel, l.isFail = false ∧ (pstep? c s l).isSome = true := by
  have hcons := c02_permits_conserved c limit univ hnd ls hls s hr
  have hidle : ∀ m, m ∉ univ → s.st m = .idle := by
    intro m hm
    have := untouched_idle c univ ls _ s hls hr m hm
    rw [this]; rfl
  by_cases hh : ∃ h, (s.st h).holds = true
  · -- a holder can finish what it holds the permit for
    obtain ⟨h, hh⟩ := hh
    cases hs : s.st h with
    | claimed => exact ⟨.existsT h, rfl, by simp [pstep?, hs]⟩
    | copying => exact ⟨.push h, rfl, by simp [pstep?, hs]⟩
    | idle => rw [hs] at hh; cases hh
    | waiting => rw [hs] at hh; cases hh
    | done => rw [hs] at hh; cases hh
    | failed => rw [hs] at hh; cases hh
  · -- nobody holds a permit: all of them are free
    have hnone : ∀ m, (s.st m).holds = false := by
      intro m
      cases hm : (s.st m).holds with
      | false => rfl
      | true => exact absurd ⟨m, hm⟩ hh
    have havail : 0 < s.avail := by
      have := holders_zero s univ (fun m _ => hnone m)
      omega
    -- the deepest unfinished node below `n` can move
    have key : ∀ (b : Nat) (m : Node), rk m < b → s.st m ≠ .done →
        ∃ l : PLabel, l.isFail = false ∧ (pstep? c s l).isSome = true := by
      intro b
      induction b with
      | zero => intro m hm; omega
      | succ b ih =>
        intro m hm hmd
        cases hs : s.st m with
        | idle => exact ⟨.claim m, rfl, by simp [pstep?, hs, havail]⟩
        | claimed => have := hnone m; rw [hs] at this; cases this
        | copying => have := hnone m; rw [hs] at this; cases this
        | done => exact absurd hs hmd
        | failed => exact absurd hs (hnofail m)
        | waiting =>
          by_cases hall : (c.kids m).all (fun k => decide (s.st k = .done)) = true
          · exact ⟨.ready m, rfl, by simp [pstep?, hs, hall, havail]⟩
          · have : ∃ k ∈ c.kids m, s.st k ≠ .done := by
              apply Classical.byContradiction
              intro hne
              apply hall
              simp only [List.all_eq_true, decide_eq_true_eq]
              intro k hk
              by_cases e : s.st k = .done
              · exact e
              · exact absurd ⟨k, hk, e⟩ hne
            obtain ⟨k, hk, hkd⟩ := this
            have := hrk m k hk
            exact ih k (by omega) hkd
    exact key (rk n + 1) n (by omega) hn

/-- **Source facts** (regenerated): `copyGraph`'s task gives its permit back right before it
    dispatches its successors and takes one again after waiting for them — `region.End()`,
    `syncutil.Go(…)`, `region.Start()` in this order inside `if len(successors) != 0` — and
    touches its region nowhere else, so a leaf keeps its permit from spawn to return.  This
    is the shape `Model/CopyP.lean` gives `existsF` and `ready`. -/
theorem c02_source_facts :
    Gen.copyGraphDispatchCalls = ["region.End", "syncutil.Go", "region.Start"] ∧
    Gen.copyGraphRegionCallsElsewhere = 0 := by
  decide

/-- Non-vacuity: with one permit, a parent 0 over two leaves 1 and 2 runs to completion (the
    parent gives its permit back while it waits), and the hypotheses of `c02_no_deadlock` hold
    half way — parent waiting, leaf 1 done, leaf 2 idle, the permit free. -/
example :
    let c : CopyCfg := { kids := fun n => if n = 0 then [1, 2] else [], dkey := id, roots := [0] }
    let full : List PLabel := [.claim 0, .existsF 0, .claim 1, .existsF 1, .push 1, .claim 2, .existsF 2, .push 2,
      .ready 0, .push 0]
    ((prun? c (PSt.init 1) full).map fun s => ([0, 1, 2].map s.st, s.avail)) = some ([.done, .done, .done], 1) ∧
    ((prun? c (PSt.init 1) (full.take 5)).map fun s => ([0, 1, 2].map s.st, s.avail)) =
      some ([.waiting, .done, .idle], 1) := by
  decide

end Oras.Props.C02
