/-
  C01 — `removeForeignLayers` (`copy.go`) drops exactly the foreign layers and keeps every
  other successor, in order, however they are interleaved (`Model/Compact.lean`).
-/
import OrasModel.Proofs.Compact
import OrasModel.Gen.Facts
namespace Oras.Props.C01
open Oras Oras.Compact

/-- **Every ordinary successor survives, once, in order**: the in-place compaction returns the
    list filtered by "is not a foreign layer", for every list. -/
theorem c01_remove_foreign_is_filter {α : Type} (isForeign : α → Bool) (descs : List α) :
    compact (fun d => !isForeign d) atCursor descs = descs.filter (fun d => !isForeign d) :=
  compact_eq_filter _ descs

/-- ... hence nothing that is not foreign is lost and nothing foreign is kept. -/
theorem c01_remove_foreign_mem {α : Type} (isForeign : α → Bool) (descs : List α) (d : α) :
    d ∈ compact (fun d => !isForeign d) atCursor descs ↔ d ∈ descs ∧ isForeign d = false := by
  rw [c01_remove_foreign_is_filter]
  simp [List.mem_filter]

/-- The seeded change C01/m9 (write at `i - 1`): two foreign layers ahead of an ordinary one
    lose it. -/
theorem c01_counterexample_write_at_prev :
    compact (fun d : Nat => d % 2 == 0) atPrev [1, 2, 3, 4] ≠ [2, 4] ∧
    compact (fun d : Nat => d % 2 == 0) atCursor [1, 2, 3, 4] = [2, 4] := by
  decide

/-- The loop in the source writes at the cursor. -/
theorem c01_compact_source_facts :
    Gen.compactLoops = [("removeForeignLayers", ["descs[j] = desc", "j++", "descs[:j]"]),
                        ("filterReferrers", ["refs[j] = ref", "j++", "refs[:j]"])] := by
  decide

end Oras.Props.C01
