/-
  C04, continued — the permit accounting of the limiter (`Model/Permits.lean`).  Property
  theorems only; the invariant is proved in `Proofs/Permits.lean` for any number of regions
  and every interleaving of `Start`, `End` and operations.
-/
import OrasModel.Proofs.Permits
import OrasModel.Gen.Facts
namespace Oras.Props.C04
open Oras

/-- **Permits are conserved**: in every reachable state the permits left in the semaphore
    plus the regions currently started add up to `Concurrency` — so the semaphore is never
    over-released (a second `End` is a no-op) and never leaks a permit. -/
theorem c04_permits (limit : Nat) (s : PermitSt) (h : PermitReach limit s) :
    s.avail + holders s.regions = limit ∧ s.avail ≤ limit ∧ holders s.regions ≤ limit := by
  obtain ⟨inv, hl⟩ := permitInv_reach limit s h
  have := inv.conserve
  rw [hl] at this
  omega

/-- **At most `Concurrency` operations are in flight**: every source read and destination
    operation runs inside a started region, so their number never exceeds the permits. -/
theorem c04_ops_hold_permit (limit : Nat) (s : PermitSt) (h : PermitReach limit s) :
    inFlight s.regions ≤ limit := by
  obtain ⟨inv, hl⟩ := permitInv_reach limit s h
  have hle : inFlight s.regions ≤ holders s.regions := by
    unfold inFlight holders
    apply List.countP_mono_left
    intro r hr hb
    simp only [Bool.not_eq_true', Bool.not_eq_eq_eq_not, Bool.not_true]
    exact inv.busyHolds r hr hb
  have := inv.conserve
  rw [hl] at this
  omega

/-- Non-vacuity: with `Concurrency = 1`, one region starts and works; a second region cannot
    start until the first has ended. -/
example : ∃ s : PermitSt, PermitReach 1 s ∧ s.avail = 0 ∧ inFlight s.regions = 1 ∧ s.regions.length = 2 := by
  let s0 := PermitSt.init 1
  let s1 : PermitSt := { s0 with regions := s0.regions ++ [⟨true, false⟩] }
  let s2 : PermitSt := { s1 with regions := s1.regions ++ [⟨true, false⟩] }
  let s3 : PermitSt := { s2 with avail := s2.avail - 1, regions := s2.regions.set 0 { (⟨true, false⟩ : Region) with ended := false } }
  let s4 : PermitSt := { s3 with regions := s3.regions.set 0 { (⟨false, false⟩ : Region) with busy := true } }
  refine ⟨s4, ?_, by rfl, by rfl, by rfl⟩
  have r1 : PermitReach 1 s1 := .step .init (.spawn s0)
  have r2 : PermitReach 1 s2 := .step r1 (.spawn s1)
  have r3 : PermitReach 1 s3 := .step r2 (.start s2 0 ⟨true, false⟩ rfl rfl (by decide))
  exact .step r3 (.beginOp s3 0 ⟨false, false⟩ rfl rfl rfl)

end Oras.Props.C04
