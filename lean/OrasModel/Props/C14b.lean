/-
  C14, continued — `syncutil.Merge` (`Model/Merge.lean`): the batching that makes concurrent
  referrers-index updates lose nothing.  Property theorems only; the invariant is proved in
  `Proofs/Merge.lean` for any number of callers and every interleaving.
-/
import OrasModel.Proofs.Merge
namespace Oras.Props.C14
open Oras

/-- **At most one caller is between `prepare` and `complete`** (so the index of one subject
    is read, rewritten and pushed by one goroutine at a time), and while it is, the main
    token is not available to anybody else. -/
theorem c14_merge_exclusive (s : MergeSt) (h : MergeReach s) :
    (∀ j k, (s.pc j).active = true → (s.pc k).active = true → j = k) ∧
    (∀ j, (s.pc j).active = true → s.token = false ∧ j ∈ s.items) :=
  ⟨(mergeInv_reach s h).oneActive, (mergeInv_reach s h).activeCur⟩

/-- **Every caller receives its batch's result**: what `Do` returned to a caller is the
    outcome recorded for the batch it was merged into, so two callers of one batch always
    get the same answer — in particular an error of `resolve` (index push or delete failed)
    reaches every caller whose change was in that batch, never `nil`. -/
theorem c14_merge_result (s : MergeSt) (h : MergeReach s) :
    (∀ j b ok, s.pc j = .done b ok → (b, ok) ∈ s.outcome) ∧
    (∀ j k b ok ok', s.pc j = .done b ok → s.pc k = .done b ok' → ok = ok') := by
  have inv := mergeInv_reach s h
  refine ⟨inv.doneOutcome, ?_⟩
  intro j k b ok ok' hj hk
  exact inv.outcomeFun b ok ok' (inv.doneOutcome j b ok hj) (inv.doneOutcome k b ok' hk)

/-- **Every item is passed to `resolve` at most once, with its whole batch**: a batch is
    resolved at most once, batches are resolved one after the other (only finished batches
    are in the history), and if a caller's batch was resolved its item was among the items. -/
theorem c14_merge_resolved_once (s : MergeSt) (h : MergeReach s) :
    (∀ b its its', (b, its) ∈ s.resolved → (b, its') ∈ s.resolved → its = its') ∧
    (∀ b its, (b, its) ∈ s.resolved → b < s.cur) ∧
    (∀ j b ok its, s.pc j = .done b ok → (b, its) ∈ s.resolved → j ∈ its) :=
  ⟨(mergeInv_reach s h).resolvedFun, (mergeInv_reach s h).resolvedOld, (mergeInv_reach s h).doneInResolved⟩

/-- Non-vacuity: callers 0 and 1 are merged into batch 0 (1 arrives while 0 prepares),
    caller 2 arrives after the commit and lands in batch 1; batch 0's `resolve` fails and
    both 0 and 1 are told so. -/
example : ∃ s : MergeSt, MergeReach s ∧ s.pc 0 = .done 0 false ∧ s.pc 1 = .done 0 false ∧
    s.pc 2 = .waiting 1 ∧ s.resolved = [(0, [0, 1])] := by
  let s0 := MergeSt.init
  let s1 : MergeSt := { s0 with items := s0.items ++ [0], token := s0.token || s0.items.isEmpty,
                                pc := fun j => if j = 0 then .waiting s0.cur else s0.pc j }
  let s2 : MergeSt := { s1 with token := false, pc := fun j => if j = 0 then .preparing s1.cur else s1.pc j }
  let s3 : MergeSt := { s2 with items := s2.items ++ [1], token := s2.token || s2.items.isEmpty,
                                pc := fun j => if j = 1 then .waiting s2.cur else s2.pc j }
  let s4 : MergeSt := { s3 with committed := true, pc := fun j => if j = 0 then .resolving s3.cur else s3.pc j }
  let s5 : MergeSt := { s4 with pending := s4.pending ++ [2], pc := fun j => if j = 2 then .waiting (s4.cur + 1) else s4.pc j }
  let s6 : MergeSt := { s5.complete false with resolved := (s5.cur, s5.items) :: s5.resolved }
  refine ⟨s6, ?_, by rfl, by rfl, by rfl, by rfl⟩
  have r1 : MergeReach s1 := .step .init (.assignOpen s0 0 rfl rfl)
  have r2 : MergeReach s2 := .step r1 (.takeMain s1 0 rfl rfl)
  have r3 : MergeReach s3 := .step r2 (.assignOpen s2 1 rfl rfl)
  have r4 : MergeReach s4 := .step r3 (.prepareOk s3 0 rfl)
  have r5 : MergeReach s5 := .step r4 (.assignPending s4 2 rfl rfl)
  exact .step r5 (.resolveDone s5 0 false rfl)

end Oras.Props.C14
