/-
  C14 — the flow around one referrers tag, fault by fault (`Model/RefFlow.lean`): the listing
  never names a manifest that is gone, a `Delete` leaves listing = stored referrers whatever
  fault is injected, the clean-up error is reported only after the update took effect, and
  superseded indexes do not pile up.  Property theorems only; lemmas in `Proofs/RefFlow.lean`.
  The order of calls and the two repaired error paths are regenerated from the source
  (`c14_flow_source_facts`).
-/
import OrasModel.Proofs.RefFlow
import OrasModel.Gen.Facts
namespace Oras.Props.C14
open Oras Oras.RefFlow

/-- The listing names exactly the stored referrers, each once. -/
structure Consistent (r : Reg) : Prop where
  same : ∀ k, k ∈ r.listed ↔ k ∈ r.live
  liveNodup : r.live.Nodup
  listedNodup : r.listed.Nodup

/-- The listing names stored referrers only, each once (what survives a refused `Push`, whose
    manifest is stored while the index could not be updated - the caller was told). -/
structure Sound (r : Reg) : Prop where
  sub : ∀ k, k ∈ r.listed → k ∈ r.live
  liveNodup : r.live.Nodup
  listedNodup : r.listed.Nodup

theorem Consistent.sound {r : Reg} (h : Consistent r) : Sound r :=
  ⟨fun k hk => (h.same k).mp hk, h.liveNodup, h.listedNodup⟩

/-- **`Delete` under any fault** (index read, index push or old-index deletion refused, GC
    skipped or not): afterwards the listing is again exactly the set of stored referrers. -/
theorem c14_flow_delete_consistent (skipGC : Bool) (f : Fault) (r : Reg) (k : Nat) (h : Consistent r) :
    Consistent (delete skipGC true true f r k).1 := by
  unfold delete
  split
  · exact h
  · rename_i hk
    have hlive := updateIndex_live skipGC true f r (.remove k)
    have herr := updateIndex_err skipGC true f r (.remove k)
    have hlisted := updateIndex_listed skipGC f r (.remove k)
    generalize updateIndex skipGC true f r (.remove k) = res at hlive herr hlisted
    obtain ⟨r1, out⟩ := res
    simp only at hlive herr hlisted
    have erased : out ≠ .err → Consistent { r1 with live := r1.live.erase k } := by
      intro hne
      have hl := hlisted hne
      simp only [applyD] at hl
      refine ⟨?_, ?_, ?_⟩
      · intro x
        show x ∈ r1.listed ↔ x ∈ r1.live.erase k
        rw [hl, hlive, List.Nodup.mem_erase_iff h.listedNodup, List.Nodup.mem_erase_iff h.liveNodup, h.same x]
      · show (r1.live.erase k).Nodup
        rw [hlive]; exact h.liveNodup.erase k
      · show r1.listed.Nodup
        rw [hl]; exact h.listedNodup.erase k
    cases out with
    | ok => exact erased (by simp)
    | cleanup => simp only [if_true]; exact erased (by simp)
    | err => simp only; rw [herr rfl]; exact h

/-- **`Push` without a fault, or with only the old-index deletion refused**: consistent again. -/
theorem c14_flow_push_consistent (skipGC : Bool) (f : Fault) (r : Reg) (k : Nat) (h : Consistent r)
    (hf : f = .none ∨ f = .idxDel) : Consistent (push skipGC true f r k).1 := by
  unfold push
  simp only
  generalize hr0 : ({ r with live := if k ∈ r.live then r.live else r.live ++ [k] } : Reg) = r0
  have hr0live : r0.live = if k ∈ r.live then r.live else r.live ++ [k] := by rw [← hr0]
  have hr0listed : r0.listed = r.listed := by rw [← hr0]; rfl
  have hlive := updateIndex_live skipGC true f r0 (.add k)
  have hlisted := updateIndex_listed skipGC f r0 (.add k)
  have hne : (updateIndex skipGC true f r0 (.add k)).2 ≠ .err := updateIndex_no_err skipGC true f hf r0 (.add k)
  have hl := hlisted hne
  simp only [applyD, hr0listed] at hl
  refine ⟨?_, ?_, ?_⟩
  · intro x
    rw [hl, hlive, hr0live]
    by_cases hk : k ∈ r.live
    · have hk' : k ∈ r.listed := (h.same k).mpr hk
      simp only [hk, hk', if_true]
      exact h.same x
    · have hk' : k ∉ r.listed := fun hh => hk ((h.same k).mp hh)
      simp only [hk, hk', if_false, List.mem_append, List.mem_singleton]
      rw [h.same x]
  · rw [hlive, hr0live]
    by_cases hk : k ∈ r.live
    · simp only [hk, if_true]; exact h.liveNodup
    · simp only [hk, if_false]
      exact List.nodup_append.mpr ⟨h.liveNodup, (by simp : [k].Nodup), fun a ha b hb => by
        rw [List.mem_singleton.mp hb]; exact fun e => hk (e ▸ ha)⟩
  · rw [hl]
    by_cases hk' : k ∈ r.listed
    · simp only [hk', if_true]; exact h.listedNodup
    · simp only [hk', if_false]
      exact List.nodup_append.mpr ⟨h.listedNodup, (by simp : [k].Nodup), fun a ha b hb => by
        rw [List.mem_singleton.mp hb]; exact fun e => hk' (e ▸ ha)⟩

/-- **Under every fault, of `Push` or `Delete`, the listing never names a referrer that is
    not stored.** -/
theorem c14_flow_sound_step (skipGC : Bool) (r : Reg) (op : Op) (h : Sound r) :
    Sound (step skipGC true true r op).1 := by
  cases op with
  | delete k f =>
    show Sound (delete skipGC true true f r k).1
    unfold delete
    split
    · exact h
    · have hlive := updateIndex_live skipGC true f r (.remove k)
      have herr := updateIndex_err skipGC true f r (.remove k)
      have hlisted := updateIndex_listed skipGC f r (.remove k)
      generalize updateIndex skipGC true f r (.remove k) = res at hlive herr hlisted
      obtain ⟨r1, out⟩ := res
      simp only at hlive herr hlisted
      have erased : out ≠ .err → Sound { r1 with live := r1.live.erase k } := by
        intro hne
        have hl := hlisted hne
        simp only [applyD] at hl
        refine ⟨?_, ?_, ?_⟩
        · intro x hx
          have hx' : x ∈ r.listed.erase k := hl ▸ hx
          show x ∈ r1.live.erase k
          rw [hlive, List.Nodup.mem_erase_iff h.liveNodup]
          have := (List.Nodup.mem_erase_iff h.listedNodup).mp hx'
          exact ⟨this.1, h.sub x this.2⟩
        · show (r1.live.erase k).Nodup
          rw [hlive]; exact h.liveNodup.erase k
        · show r1.listed.Nodup
          rw [hl]; exact h.listedNodup.erase k
      cases out with
      | ok => exact erased (by simp)
      | cleanup => simp only [if_true]; exact erased (by simp)
      | err => simp only; rw [herr rfl]; exact h
  | push k f =>
    show Sound (push skipGC true f r k).1
    unfold push
    simp only
    generalize hr0 : ({ r with live := if k ∈ r.live then r.live else r.live ++ [k] } : Reg) = r0
    have hr0live : r0.live = if k ∈ r.live then r.live else r.live ++ [k] := by rw [← hr0]
    have hr0listed : r0.listed = r.listed := by rw [← hr0]; rfl
    have hsub0 : ∀ x, x ∈ r.live → x ∈ r0.live := by
      intro x hx; rw [hr0live]; split
      · exact hx
      · exact List.mem_append_left _ hx
    have hk0 : k ∈ r0.live := by
      rw [hr0live]; split
      · assumption
      · simp
    have hnd0 : r0.live.Nodup := by
      rw [hr0live]
      by_cases hk : k ∈ r.live
      · simp only [hk, if_true]; exact h.liveNodup
      · simp only [hk, if_false]
        exact List.nodup_append.mpr ⟨h.liveNodup, (by simp : [k].Nodup), fun a ha b hb => by
          rw [List.mem_singleton.mp hb]; exact fun e => hk (e ▸ ha)⟩
    have hlive := updateIndex_live skipGC true f r0 (.add k)
    have herr := updateIndex_err skipGC true f r0 (.add k)
    have hlisted := updateIndex_listed skipGC f r0 (.add k)
    by_cases he : (updateIndex skipGC true f r0 (.add k)).2 = .err
    · rw [herr he]
      exact ⟨fun x hx => hsub0 x (h.sub x (hr0listed ▸ hx)), hnd0, hr0listed ▸ h.listedNodup⟩
    · have hl := hlisted he
      simp only [applyD, hr0listed] at hl
      refine ⟨?_, hlive ▸ hnd0, ?_⟩
      · intro x hx
        rw [hl] at hx
        rw [hlive]
        by_cases hk' : k ∈ r.listed
        · simp only [hk', if_true] at hx; exact hsub0 x (h.sub x hx)
        · simp only [hk', if_false, List.mem_append, List.mem_singleton] at hx
          rcases hx with hx | hx
          · exact hsub0 x (h.sub x hx)
          · exact hx ▸ hk0
      · rw [hl]
        by_cases hk' : k ∈ r.listed
        · simp only [hk', if_true]; exact h.listedNodup
        · simp only [hk', if_false]
          exact List.nodup_append.mpr ⟨h.listedNodup, (by simp : [k].Nodup), fun a ha b hb => by
            rw [List.mem_singleton.mp hb]; exact fun e => hk' (e ▸ ha)⟩

/-- ... hence after every history, whatever faults were injected. -/
theorem c14_flow_sound_run (skipGC : Bool) (ops : List Op) : Sound (run skipGC true true Reg.empty ops) := by
  have h0 : Sound Reg.empty := ⟨fun k hk => (by cases hk), List.nodup_nil, List.nodup_nil⟩
  suffices ∀ r, Sound r → Sound (run skipGC true true r ops) from this _ h0
  induction ops with
  | nil => intro r h; exact h
  | cons op rest ih =>
    intro r h
    unfold run
    simp only [List.foldl_cons]
    exact ih _ (c14_flow_sound_step skipGC r op h)

/-- A history in which no `Push` had its index read or index push refused (every other fault
    is allowed, on pushes and deletes). -/
def Accepted : List Op → Prop
  | [] => True
  | .push _ f :: rest => (f = .none ∨ f = .idxDel) ∧ Accepted rest
  | .delete _ _ :: rest => Accepted rest

/-- **After every such history the listing is exactly the set of stored referrers, each
    once** - what a registry with the Referrers API would list. -/
theorem c14_flow_consistent_run (skipGC : Bool) (ops : List Op) (ha : Accepted ops) :
    Consistent (run skipGC true true Reg.empty ops) := by
  have h0 : Consistent Reg.empty :=
    ⟨fun k => ⟨fun hk => (by cases hk), fun hk => (by cases hk)⟩, List.nodup_nil, List.nodup_nil⟩
  suffices ∀ r, Consistent r → Consistent (run skipGC true true r ops) from this _ h0
  induction ops with
  | nil => intro r h; exact h
  | cons op rest ih =>
    intro r h
    unfold run
    simp only [List.foldl_cons]
    cases op with
    | push k f => exact ih ha.2 _ (c14_flow_push_consistent skipGC f r k h ha.1)
    | delete k f => exact ih ha _ (c14_flow_delete_consistent skipGC f r k h)

/-- **The clean-up error is reported after the update itself took effect**: a `Delete` that
    returns it has removed the referrer from the store and from the listing; a `Push` that
    returns it has stored and listed it. -/
theorem c14_flow_cleanup_after_effect (skipGC : Bool) (f : Fault) (r : Reg) (k : Nat) (h : Sound r) :
    ((delete skipGC true true f r k).2 = .cleanup →
        k ∉ (delete skipGC true true f r k).1.live ∧ k ∉ (delete skipGC true true f r k).1.listed) ∧
    ((push skipGC true f r k).2 = .cleanup →
        k ∈ (push skipGC true f r k).1.live ∧ k ∈ (push skipGC true f r k).1.listed) := by
  constructor
  · intro hc
    have hs := c14_flow_sound_step skipGC r (.delete k f) h
    change Sound (delete skipGC true true f r k).1 at hs
    have hnl : k ∉ (delete skipGC true true f r k).1.live := by
      unfold delete at hc ⊢
      split
      · rename_i hk; rw [if_pos hk] at hc; cases hc
      · rename_i hk
        rw [if_neg hk] at hc
        have hlive := updateIndex_live skipGC true f r (.remove k)
        generalize updateIndex skipGC true f r (.remove k) = res at hlive hc
        obtain ⟨r1, out⟩ := res
        cases out with
        | ok => cases hc
        | err => cases hc
        | cleanup =>
          simp only [if_true]
          show k ∉ r1.live.erase k
          simp only at hlive
          rw [hlive]
          exact fun hm => ((List.Nodup.mem_erase_iff h.liveNodup).mp hm).1 rfl
    exact ⟨hnl, fun hl => hnl (hs.sub k hl)⟩
  · intro hc
    unfold push at hc ⊢
    simp only at hc ⊢
    generalize hr0 : ({ r with live := if k ∈ r.live then r.live else r.live ++ [k] } : Reg) = r0 at hc ⊢
    have hk0 : k ∈ r0.live := by
      rw [← hr0]; show k ∈ (if k ∈ r.live then r.live else r.live ++ [k]); split
      · assumption
      · simp
    have hne : (updateIndex skipGC true f r0 (.add k)).2 ≠ .err := by rw [hc]; simp
    refine ⟨(updateIndex_live skipGC true f r0 (.add k)) ▸ hk0, ?_⟩
    rw [updateIndex_listed skipGC f r0 (.add k) hne]
    simp only [applyD]
    split
    · assumption
    · simp

/-- **Superseded indexes are deleted**: without faults and with referrers GC, no operation
    leaves a superseded index manifest behind. -/
theorem c14_flow_no_dangling (r : Reg) (k : Nat) :
    (push false true .none r k).1.dangling = r.dangling ∧ (delete false true true .none r k).1.dangling = r.dangling := by
  constructor
  · unfold push
    exact updateIndex_dangling _ _
  · unfold delete
    split
    · rfl
    · have hd := updateIndex_dangling r (.remove k)
      generalize updateIndex false true .none r (.remove k) = res at hd
      obtain ⟨r1, out⟩ := res
      cases out <;> exact hd

/-- F22, before the repair: `Delete` returned the clean-up error with the manifest still
    stored and no longer listed. -/
theorem c14_counterexample_delete_before_effect :
    let r : Reg := { live := [0, 1], tag := some [0, 1], dangling := 0 }
    (delete false true false .idxDel r 0).2 = .cleanup ∧
      0 ∈ (delete false true false .idxDel r 0).1.live ∧ 0 ∉ (delete false true false .idxDel r 0).1.listed := by
  decide

/-- F23, before the repair: removing the last referrer while the old index cannot be deleted
    left it listed although it is gone. -/
theorem c14_counterexample_last_referrer_stays_listed :
    let r : Reg := { live := [0], tag := some [0], dangling := 0 }
    (delete false false true .idxDel r 0).2 = .cleanup ∧
      0 ∉ (delete false false true .idxDel r 0).1.live ∧ 0 ∈ (delete false false true .idxDel r 0).1.listed := by
  decide

/-- Non-vacuity: a history with every kind of fault that ends consistent and non-empty. -/
example :
    let ops := [Op.push 0 .none, .push 1 .idxDel, .delete 0 .idxGet, .delete 0 .idxPut, .delete 0 .idxDel, .push 2 .none]
    Accepted ops ∧ (run false true true Reg.empty ops).live = [1, 2] ∧ (run false true true Reg.empty ops).listed = [1, 2] := by
  refine ⟨by simp [Accepted], by decide, by decide⟩

/-- **The source is the code the model describes**: `Delete` updates the index before it
    deletes the manifest and, on the clean-up error, deletes it all the same; `Push` stores the
    manifest before it updates the index; the update pushes the new index before it deletes
    the old one and, when that fails with nothing pushed, pushes one then. -/
theorem c14_flow_source_facts :
    Gen.refDeleteCalls = ["delete", "index", "delete", "delete"] ∧
    Gen.refDeleteOnIndexError = ["delete"] ∧ Gen.refDeleteTestsCleanupError = true ∧
    Gen.refPushCalls = ["push", "push", "index", "push"] ∧
    Gen.refUpdateCalls = ["read", "apply", "pushIndex", "pushIndex", "deleteOld", "pushIndex"] ∧
    Gen.refUpdateOnDeleteError = ["pushIndex"] := by
  decide

end Oras.Props.C14
