/-
  C09 — OCI Delete / auto-GC / GC remove exactly the garbage, keep live data, terminate.
  Property theorems only.  Model: `Model/Oci.lean`; helpers: `Proofs/OciDelete.lean`.
  Source facts: `Gen/Facts.lean` (`gcWalkAdvances`, `deleteIsTaggedCalls`,
  `deleteSkipsAbsent`, `gcSavesIndex`, `tagDropsStale`).
-/
import OrasModel.Proofs.OciDelete
import OrasModel.Proofs.OciTags
import OrasModel.Proofs.OciCascade
import OrasModel.Proofs.OciGc
import OrasModel.Proofs.OciGcSound
import OrasModel.Proofs.OciCascadeComplete
import OrasModel.Proofs.OciGcNames
import OrasModel.Gen.Facts
namespace Oras.Props.C09
open Oras Oras.OciSt

/-! ### GC terminates -/

/-- **The subject walk of `gcIndex` terminates**: along an acyclic subject relation (rank
    function `rk`), fuel `rk n + 1` is always enough — the walk never reports `hang`. -/
theorem c09_gc_walk_terminates (c : OciCfg) (blobs : List Node) (g : GMem) (rk : Node → Nat)
    (hrk : ∀ n s, c.subject n = some s → rk s < rk n) :
    ∀ (fuel : Nat) (n : Node), rk n < fuel → gcWalk c blobs g fuel n ≠ .error .hang := by
  intro fuel
  induction fuel with
  | zero => intro n h; omega
  | succ fuel ih =>
    intro n h
    unfold gcWalk
    cases hs : c.subject n with
    | none => simp
    | some s =>
      simp only
      split
      · simp
      · split
        · exact ih s (by have := hrk n s hs; omega)
        · simp

/-- The walk **as it was written before the repair of F1** diverges whenever the entry's
    subject is not yet in the graph: the shadowed loop variable is never advanced. -/
theorem c09_gc_walk_shadowed_diverges (c : OciCfg) (g : GMem) (n s : Node)
    (hs : c.subject n = some s) (hg : g.exists_ s = false) :
    gcWalkBuggy c g n = .error .hang := by
  simp [gcWalkBuggy, hs, hg]

/-- The current source advances the walk, filters referrers by `isTagged`, skips absent
    cascade entries and saves the index after GC (facts re-extracted on every run). -/
theorem c09_source_facts :
    Gen.gcWalkAdvances = true ∧ Gen.deleteIsTaggedCalls ≥ 2 ∧ Gen.deleteSkipsAbsent = true ∧
    Gen.gcSavesIndex = true ∧ Gen.tagDropsStale = true ∧ Gen.gcRepeatsReferrerPass = true := by
  decide

/-! ### Delete never touches another node's tag, nor a tagged node -/

/-- Loop invariant consequence: **every reference name that pointed to a node other than
    the deletion target before `Delete` still points to it afterwards, and that node's
    content is still stored** — whatever the cascade did, and also when it stopped with an
    error.  Requires the referrer filter (repair of F2). -/
theorem c09_cascade_keeps_tagged (c : OciCfg) (skipAbsent : Bool) (n0 : Node) :
    ∀ (fuel : Nat) (q seen : List Node) (st : OciSt),
      RefUniq st → RefTagInv st → (∀ d ∈ q, d = n0 ∨ NoTagRef st d) →
      ∀ (nm : Nat) (m : Node) (a : Nat),
        st.lookupRef (.tag nm) = some (m, a) → m ≠ n0 → m ∈ st.blobs →
        (deleteLoop c true skipAbsent fuel q seen st).1.lookupRef (.tag nm) = some (m, a) ∧
        m ∈ (deleteLoop c true skipAbsent fuel q seen st).1.blobs := by
  intro fuel
  induction fuel with
  | zero => intro q seen st _ _ _ nm m a h1 _ h3; simp [deleteLoop, h1, h3]
  | succ fuel ih =>
    intro q seen st hu hi hq nm m a h1 h2 h3
    cases q with
    | nil => simp [deleteLoop, h1, h3]
    | cons head q =>
      unfold deleteLoop
      split
      · -- absent entry skipped
        exact ih q seen st hu hi (fun d hd => hq d (List.mem_cons_of_mem _ hd)) nm m a h1 h2 h3
      · -- referrers
        cases hr : (if (st.autoGC && c.isMan head) = true then referrers c st head else some []) with
        | none => simp [h1, h3]
        | some rs =>
          simp only
          have hspec := deleteOne_spec st head hu hi
          cases hd : st.deleteOne head with
          | mk st' res =>
            rw [hd] at hspec
            simp only at hspec
            -- the tag reference survives this single delete
            have hmhead : m ≠ head := by
              intro e
              rcases hq head List.mem_cons_self with h | h
              · exact h2 (e.trans h)
              · have hmem := mem_of_lookup st _ _ h1
                exact h (.tag nm, m, a) hmem e nm rfl
            have h1' : st'.lookupRef (.tag nm) = some (m, a) := by
              apply lookup_of_mem st' hspec.uniq
              exact (hspec.refs _).mpr ⟨mem_of_lookup st _ _ h1, hmhead⟩
            have h3' : m ∈ st'.blobs := (hspec.blobs m hmhead).mpr h3
            cases res with
            | error e => simp [h1', h3']
            | ok dang =>
              simp only
              apply ih _ _ st' hspec.uniq hspec.inv _ nm m a h1' h2 h3'
              -- the new queue only holds the target or nodes without a reference name
              intro d hd'
              have mono : ∀ x, NoTagRef st x → NoTagRef st' x := by
                intro x hx e he hex nm' hk
                exact hx e ((hspec.refs e).mp he).1 hex nm' hk
              rcases List.mem_append.mp hd' with hd' | hd'
              · rcases List.mem_append.mp hd' with hd' | hd'
                · rcases hq d (List.mem_cons_of_mem _ hd') with h | h
                  · exact Or.inl h
                  · exact Or.inr (mono d h)
                · -- a referrer that passed the isTagged filter
                  simp only [if_true, List.mem_filter, Bool.not_eq_eq_eq_not, Bool.not_true] at hd'
                  exact Or.inr (mono d (noTagRef_of_not_isTagged st d hi hd'.2))
              · -- a dangling node that passed the isTagged filter
                by_cases hgc : st'.autoGC = true
                · simp only [hgc, if_true, List.mem_filter, Bool.not_eq_eq_eq_not, Bool.not_true] at hd'
                  exact Or.inr (noTagRef_of_not_isTagged st' d hspec.inv hd'.2)
                · simp [hgc] at hd'

/-- `Delete target`: **never another node's tag, never a tagged node** (other than the
    target itself) — the user-facing corollary. -/
theorem c09_delete_keeps_other_tags (c : OciCfg) (skipAbsent : Bool) (st : OciSt) (n : Node) (fuel : Nat)
    (hu : RefUniq st) (hi : RefTagInv st) (nm : Nat) (m : Node) (a : Nat)
    (h1 : st.lookupRef (.tag nm) = some (m, a)) (h2 : m ≠ n) (h3 : m ∈ st.blobs) :
    (st.delete c true skipAbsent n fuel).1.lookupRef (.tag nm) = some (m, a) ∧
    m ∈ (st.delete c true skipAbsent n fuel).1.blobs :=
  c09_cascade_keeps_tagged c skipAbsent n fuel [n] [] st hu hi
    (fun d hd => Or.inl (by simpa using hd)) nm m a h1 h2 h3

/-- One `Store.delete` removes the content (if present) and every reference pointing at it. -/
theorem c09_delete_removes_target (st : OciSt) (n : Node) (hu : RefUniq st) (hi : RefTagInv st) :
    (∀ e ∈ (st.deleteOne n).1.refs, e.2.1 ≠ n) ∧
    (∀ k v, st.lookupRef k = some v → v.1 ≠ n → (st.deleteOne n).1.lookupRef k = some v) := by
  have hspec := deleteOne_spec st n hu hi
  refine ⟨fun e he => ((hspec.refs e).mp he).2, ?_⟩
  intro k v hl hv
  exact lookup_of_mem _ hspec.uniq k v ((hspec.refs _).mpr ⟨mem_of_lookup st k v hl, hv⟩)

/-- The invariants the theorems assume hold in every reachable store state. -/
theorem c09_invariants_init : RefUniq OciSt.empty ∧ RefTagInv OciSt.empty := by
  constructor
  · simp [RefUniq, OciSt.empty]
  · intro e he; simp [OciSt.empty] at he

theorem c09_invariants_tag (st : OciSt) (n : Node) (a : Nat) (k : RefKey)
    (hu : RefUniq st) (hi : RefTagInv st) :
    RefUniq (st.resolverTag n a k) ∧ RefTagInv (st.resolverTag n a k) := by
  refine ⟨?_, refTagInv_resolverTag st n a k hi⟩
  unfold RefUniq resolverTag at *
  simp only [List.map_cons, List.nodup_cons]
  constructor
  · intro hin
    obtain ⟨x, hx, hxk⟩ := List.mem_map.mp hin
    have := (List.mem_filter.mp hx).2
    simp at this
    exact this hxk
  · exact List.Nodup.sublist (List.Sublist.map _ List.filter_sublist) hu

/-! ### What the cascade removes -/

/-- **Every node the cascade processes is justified**: it is the deletion target, or a
    referrer (its subject is a node the cascade processed), or it has no predecessor left in
    the graph — for every store state, target, fuel and outcome (also when the cascade stops
    with an error), and with respect to the graph the call leaves behind. -/
theorem c09_cascade_justified (c : OciCfg) (skipTagged skipAbsent : Bool) (st : OciSt) (n : Node) (fuel : Nat) :
    let r := st.delete c skipTagged skipAbsent n fuel
    ∀ d ∈ r.2.2, d = n ∨ (∃ s ∈ r.2.2, c.subject d = some s) ∨ r.1.graph.predecessors d = [] := by
  have := deleteLoop_justified c skipTagged skipAbsent n fuel [n] [] st
    (by intro d hd; simp only [List.mem_singleton] at hd; exact Or.inl hd) (by intro d hd; cases hd)
  exact this

/-- **Never a node a surviving node still links to** (for the nodes removed because they
    lost their last predecessor): if the graph is exact for what is left in the store —
    which C07 proves for every history of pushes and removals — then no stored manifest
    links to a node the cascade removed under that rule. -/
theorem c09_no_surviving_link (c : OciCfg) (skipTagged skipAbsent : Bool) (st : OciSt) (n : Node) (fuel : Nat)
    (hexact : ∀ p d, p ∈ (st.delete c skipTagged skipAbsent n fuel).1.blobs → c.isMan p = true → d ∈ c.succ p →
      p ∈ (st.delete c skipTagged skipAbsent n fuel).1.graph.predecessors d)
    (d : Node) (hd : d ∈ (st.delete c skipTagged skipAbsent n fuel).2.2) (hne : d ≠ n)
    (hnoref : ¬ ∃ s ∈ (st.delete c skipTagged skipAbsent n fuel).2.2, c.subject d = some s) :
    ∀ p ∈ (st.delete c skipTagged skipAbsent n fuel).1.blobs, c.isMan p = true → d ∉ c.succ p := by
  intro p hp hm hin
  have hj := c09_cascade_justified c skipTagged skipAbsent st n fuel d hd
  rcases hj with e | e | e
  · exact hne e
  · exact hnoref e
  · have := hexact p d hp hm hin
    rw [e] at this; cases this

/-! ### `isTagged` is exact (finding F16) -/

/-- The tag sets `isTagged` reads are exact in every reachable state: they start exact and
    `Tag`, `Untag` and `Store.delete` keep them exact. -/
theorem c09_tags_exact_reachable :
    TagsExact OciSt.empty ∧
    (∀ st n a k, TagsExact st → TagsExact (st.resolverTag n a k)) ∧
    (∀ st k, TagsExact st → TagsExact (st.resolverUntag k)) ∧
    (∀ st n, TagsExact st → TagsExact (st.deleteOne n).1) := by
  refine ⟨tagsExact_empty, tagsExact_resolverTag, tagsExact_resolverUntag, ?_⟩
  intro st n hx
  have h1 := tagsExact_foldl_untag (st.refs.filter (fun x => x.2.1 = n)) st hx
  have congr : ∀ (a b : OciSt), a.refs = b.refs → a.tagsOf = b.tagsOf → TagsExact b → TagsExact a := by
    intro a b hr ht hb
    unfold TagsExact lookupRef at *
    rw [hr, ht]; exact hb
  unfold deleteOne
  simp only
  split
  · split
    · exact congr _ _ (by simp [saveIndex]) (by simp [saveIndex]) h1
    · exact congr _ _ (by simp [saveIndex]) (by simp [saveIndex]) h1
  · split
    · exact congr _ _ (by simp) (by simp) h1
    · exact congr _ _ (by simp) (by simp) h1

/-- **`isTagged n` holds exactly when some reference other than `n`'s own digest points to
    `n`** — so the cascade spares exactly the nodes that carry a tag.  (Before the repair of
    F16 only the `←` direction held.) -/
theorem c09_isTagged_exact (st : OciSt) (n : Node) (hi : RefTagInv st) (hx : TagsExact st) :
    st.isTagged n = true ↔ ∃ k a, k ≠ RefKey.dig n ∧ st.lookupRef k = some (n, a) :=
  isTagged_iff st n hi hx

/-- F16 as found: with the resolver as it was written, a name moved from node 2 to node 0
    still counts as a tag of node 2, which no reference points to any more; the repaired
    resolver reports it untagged. -/
theorem c09_counterexample_stale_tag :
    let stale := (OciSt.empty.resolverTagStale 2 0 (.tag 5)).resolverTagStale 0 0 (.tag 5)
    let fixed := (OciSt.empty.resolverTag 2 0 (.tag 5)).resolverTag 0 0 (.tag 5)
    stale.isTagged 2 = true ∧ stale.lookupRef (.tag 5) = some (0, 0) ∧ (∀ e ∈ stale.refs, e.2.1 ≠ 2) ∧
    fixed.isTagged 2 = false ∧ fixed.isTagged 0 = true := by
  decide

/-- Non-vacuity and the F2 scenario: a tagged referrer survives the deletion of its
    subject with the filter, and is deleted without it. -/
example :
    let c : OciCfg := { succ := fun n => if n = 1 then [0] else if n = 2 then [1, 0] else [],
                        isMan := fun n => n == 1 || n == 2,
                        subject := fun n => if n = 2 then some 1 else none }
    let s := (((((OciSt.empty.push c 0).1).push c 1).1.push c 2).1.tag 2 0 (some (.tag 5))).1
    (s.delete c true true 1 50).1.blobs = [2, 0] ∧ (s.delete c false true 1 50).1.blobs = [] := by
  decide

/-- **One step of the cascade queues everything it owes**: when `Delete` has removed a node
    `h`, (a) every stored predecessor of `h` whose subject is `h` is among the referrers it
    considers (a referrer whose bytes are missing makes the listing — and the call — fail
    instead), and (b) every graph successor of `h` that is left without a predecessor is among
    the danglings `Remove` reports.  The loop appends the untagged ones of both lists to its
    queue and returns success only with an empty queue, popping a queued node either deletes
    it or finds it already gone: together with `c09_cascade_justified` (nothing else is
    removed) this is the "exactly" of the statement, step by step. -/
theorem c09_cascade_step_complete (c : OciCfg) (st st' : OciSt) (h : Node) (rs dang : List Node)
    (hr : referrers c st h = some rs) (hd : st.deleteOne h = (st', .ok dang)) :
    (∀ p ∈ st.graph.predecessors h, c.subject p = some h → p ∈ rs ∧ p ∈ st.blobs) ∧
    (∀ d ∈ st.graph.succs h, st.graph.nodes d = true → st'.graph.preds d = [] → d ∈ dang) := by
  refine ⟨referrers_complete c st h rs hr, ?_⟩
  intro d hs hn he
  have hg := deleteOne_graph st h
  rw [hd] at hg
  have hdang : dang = (st.graph.remove h).2 := hg.2 dang rfl
  have hgraph : st'.graph = (st.graph.remove h).1 := hg.1
  rw [hdang]
  rw [hgraph] at he
  exact dangling_complete st.graph h d hs hn he

/-- **The cascade is complete**: when `Delete` with auto-GC succeeds, no stored untagged node
    is left that lost — through this call — the manifest it refers to (its subject was stored
    before the call and is gone now) or its last predecessor (it had predecessors before the
    call and has none now).  For every graph, every target, any fuel with which the call
    succeeds.  With `c09_cascade_justified` (nothing else is removed) and
    `c09_cascade_keeps_tagged` this is the "exactly" of the statement.  `CInv`: references are
    unique, tag sets are exact and duplicate-free, no blob is stored twice — the invariants of
    every reachable state (`c09_invariants_init`, `c09_invariants_tag`,
    `c09_tags_exact_reachable`; `Push` refuses content that is present). -/
theorem c09_cascade_complete (c : OciCfg) (st : OciSt) (n : Node) (fuel : Nat)
    (hgc : st.autoGC = true) (hI : CInv st)
    (hok : (st.delete c true true n fuel).2.1 = .ok ()) :
    ∀ x, ¬ Owes c st (st.delete c true true n fuel).1 x := by
  unfold delete at hok ⊢
  cases hr : deleteLoop c true true fuel [n] [] st with
  | mk st' rest =>
    obtain ⟨res, seen'⟩ := rest
    rw [hr] at hok
    simp only at hok
    subst hok
    apply deleteLoop_complete c st fuel [n] [] st st' seen' hgc hI (fun _ h => h) _ hr
    -- nothing is owed before the call
    intro x hx
    obtain ⟨_, _, hcase⟩ := hx
    rcases hcase with ⟨s, _, _, _, hs0, hs1⟩ | ⟨_, hp0, hp1⟩
    · exact absurd hs0 hs1
    · exact absurd hp1 hp0

/-- Non-vacuity of `c09_cascade_complete`: a tagged manifest 9 over a layer 1 — the invariants
    hold, `Delete 9` with auto-GC succeeds, and the layer, which lost its last predecessor, is
    gone as well. -/
example :
    let c : OciCfg := ⟨fun n => if n = 9 then [1] else [], fun n => n == 9, fun _ => none⟩
    let st : OciSt := { OciSt.empty with
      blobs := [9, 1], refs := [(.tag 0, 9, 0), (.dig 9, 9, 0)],
      tagsOf := fun m => if m = 9 then [.dig 9, .tag 0] else [],
      graph := (GMem.empty.index 1 []).index 9 [1] }
    CInv st ∧ st.autoGC = true ∧ (st.delete c true true 9 5).2.1 = .ok () ∧ (st.delete c true true 9 5).1.blobs = [] := by
  intro c st
  refine ⟨⟨by unfold RefUniq; decide, ?_, ⟨?_, ?_⟩, by decide⟩, by rfl, by rfl, by rfl⟩
  · intro e he
    simp [st] at he
    rcases he with h | h <;> subst h <;> decide
  · intro n k hk
    by_cases h9 : n = 9
    · subst h9
      simp [st] at hk
      rcases hk with h | h <;> subst h <;> exact ⟨0, by decide⟩
    · simp [st, h9] at hk
  · intro n
    by_cases h9 : n = 9
    · subst h9; decide
    · simp [st, h9]

/-- **`GC` never removes live content**: when `Store.GC` succeeds, every stored blob or
    manifest reachable from a tagged manifest through stored manifests is still stored —
    for the repaired and the shadowed subject walk, one referrer pass or the fixed point,
    with or without the index save.  (`rk` witnesses acyclicity of the stored DAG; the fuel
    of the depth-first indexing is above the rank of every tagged manifest.) -/
theorem c09_gc_keeps_tagged_closure (c : OciCfg) (fixed repeatPass saveAfter : Bool) (st : OciSt)
    (rk : Node → Nat) (hrk : GMem.RankOK (succOf c st.blobs) rk) (fuel : Nat)
    (hf : ∀ e ∈ st.gcNamed, rk e.2.1 < fuel)
    (hok : (st.gc c fixed repeatPass saveAfter fuel).2 = .ok ()) :
    ∀ e ∈ st.gcNamed, ∀ m, GMem.ReachOf (succOf c st.blobs) e.2.1 m → m ∈ st.blobs →
      m ∈ (st.gc c fixed repeatPass saveAfter fuel).1.blobs := by
  intro e he m hreach hm
  unfold gc at hok ⊢
  cases hg : gcIndex c fixed repeatPass st fuel with
  | error err => rw [hg] at hok; cases hok
  | ok s =>
    simp only
    have hk := gcIndex_keeps c fixed repeatPass st s rk hrk fuel hf hg
    have hs : ∃ ss, succOf c st.blobs m = some ss := by
      unfold succOf
      by_cases hman : c.isMan m = true
      · exact ⟨c.succ m, by simp [hman, hm]⟩
      · exact ⟨[], by simp [hman]⟩
    obtain ⟨ss, hss⟩ := hs
    have hnode := hk.2 e he m ss hreach hss
    have hmem : m ∈ s.blobs.filter (fun b => s.graph.nodes b) :=
      List.mem_filter.mpr ⟨hk.1 ▸ hm, hnode⟩
    cases saveAfter with
    | false => exact hmem
    | true =>
      simp only [if_true]
      unfold autosave
      split
      · exact hmem
      · exact hmem

/-- … and what `GC` leaves is exactly the stored part of the rebuilt graph: a blob that is
    not a node of the new index is removed. -/
theorem c09_gc_sweeps_unindexed (c : OciCfg) (fixed repeatPass saveAfter : Bool) (st s : OciSt) (fuel : Nat)
    (hg : gcIndex c fixed repeatPass st fuel = .ok s) :
    ∀ b, b ∈ (st.gc c fixed repeatPass saveAfter fuel).1.blobs ↔ (b ∈ s.blobs ∧ s.graph.nodes b = true) := by
  intro b
  unfold gc
  rw [hg]
  simp only
  cases saveAfter with
  | false => exact List.mem_filter
  | true =>
    simp only [if_true]
    unfold autosave
    split <;> exact List.mem_filter

/-- Non-vacuity: a tagged manifest 9 with layers 1 and 2 and an orphan blob 3 — the
    hypotheses of `c09_gc_keeps_tagged_closure` hold (`GC` succeeds, rank 1 for the manifest)
    and layer 1 is still stored afterwards. -/
example :
    let c : OciCfg := ⟨fun n => if n = 9 then [1, 2] else [], fun n => n == 9, fun _ => none⟩
    let st : OciSt := { OciSt.empty with blobs := [9, 3, 2, 1], refs := [(.tag 0, 9, 0), (.dig 9, 9, 0)] }
    (st.gc c true true true 5).2 = .ok () ∧ 1 ∈ (st.gc c true true true 5).1.blobs := by
  intro c st
  have hok : (st.gc c true true true 5).2 = .ok () := by
    unfold gc gcIndex
    simp [st, gcNamed, gcPass]
  refine ⟨hok, ?_⟩
  have hrk : GMem.RankOK (succOf c st.blobs) (fun n => if n = 9 then 1 else 0) := by
    intro n ss hs k hk
    unfold succOf at hs
    by_cases h9 : n = 9
    · subst h9
      simp [c, st] at hs
      subst hs
      simp at hk
      rcases hk with h | h <;> simp [h]
    · have : c.isMan n = false := by simp [c, h9]
      simp [this] at hs
      subst hs
      cases hk
  refine c09_gc_keeps_tagged_closure c true true true st _ hrk 5 ?_ hok (.tag 0, 9, 0) (by simp [st, gcNamed]) 1 ?_ (by simp [st])
  · intro e he
    simp [st, gcNamed] at he
    subst he
    decide
  · exact GMem.ReachOf.step (ss := [1, 2]) GMem.ReachOf.refl (by simp [succOf, c, st]) (by simp)

/-- **`GC` removes all garbage**: when `Store.GC` succeeds, every blob it leaves is live —
    reachable from a tagged manifest, or from an index entry whose subject chain ends in a
    live node.  With `c09_gc_keeps_tagged_closure` this brackets the kept set from both
    sides. -/
theorem c09_gc_removes_garbage (c : OciCfg) (fixed repeatPass saveAfter : Bool) (st : OciSt) (fuel : Nat)
    (hok : (st.gc c fixed repeatPass saveAfter fuel).2 = .ok ()) :
    ∀ b ∈ (st.gc c fixed repeatPass saveAfter fuel).1.blobs, GcLive c st b := by
  intro b hb
  unfold gc at hok hb
  cases hg : gcIndex c fixed repeatPass st fuel with
  | error err => rw [hg] at hok; cases hok
  | ok s =>
    rw [hg] at hb
    simp only at hb
    have hmem : b ∈ s.blobs.filter (fun b => s.graph.nodes b) := by
      cases saveAfter with
      | false => exact hb
      | true =>
        simp only [if_true] at hb
        unfold autosave at hb
        split at hb <;> exact hb
    have hn : s.graph.nodes b = true := by simpa using (List.mem_filter.mp hmem).2
    exact gcIndex_sound c fixed repeatPass st s fuel hg b hn

/-- Non-vacuity: with a tagged manifest 9 over layers 1 and 2 and an orphan blob 3, `GC`
    removes 3 (it is not live). -/
example :
    let c : OciCfg := ⟨fun n => if n = 9 then [1, 2] else [], fun n => n == 9, fun _ => none⟩
    let st : OciSt := { OciSt.empty with blobs := [9, 3, 2, 1], refs := [(.tag 0, 9, 0), (.dig 9, 9, 0)] }
    3 ∉ (st.gc c true true true 5).1.blobs := by
  intro c st hmem
  have hok : (st.gc c true true true 5).2 = .ok () := by
    unfold gc gcIndex
    simp [st, gcNamed, gcPass]
  have hlive := c09_gc_removes_garbage c true true true st 5 hok 3 hmem
  have hreach : ∀ x, GMem.ReachOf (succOf c st.blobs) 9 x → x = 9 ∨ x = 1 ∨ x = 2 := by
    intro x hx
    induction hx with
    | refl => exact Or.inl rfl
    | @step m k ss _ hs hk ih =>
      rcases ih with h | h | h <;> subst h <;> simp [succOf, c, st] at hs <;> subst hs <;> simp at hk
      rcases hk with h | h <;> simp [h]
  cases hlive with
  | tagged he hr =>
    simp [st, gcNamed] at he
    subst he
    have := hreach 3 hr
    simp at this
  | referrer _ hc _ _ =>
    cases hc with
    | one h => simp [c] at h
    | more h _ _ => simp [c] at h

/-- **`GC` keeps every name**: whether `Store.GC` succeeds or fails, every reference name
    resolves afterwards to what it resolved to before - however many names one manifest
    carries (the collection rebuilds the resolver from the named entries and only adds digest
    entries). -/
theorem c09_gc_keeps_names (c : OciCfg) (fixed repeatPass saveAfter : Bool) (st : OciSt) (fuel : Nat)
    (hu : RefUniq st) (t : Nat) :
    (st.gc c fixed repeatPass saveAfter fuel).1.lookupRef (.tag t) = st.lookupRef (.tag t) :=
  gc_names c fixed repeatPass saveAfter st fuel hu t

/-- Non-vacuity: one manifest under two names, and a third name that is not set. -/
example :
    let c : OciCfg := ⟨fun n => if n = 9 then [1] else [], fun n => n == 9, fun _ => none⟩
    let st : OciSt := { OciSt.empty with blobs := [9, 1], refs := [(.tag 0, 9, 0), (.tag 1, 9, 2), (.dig 9, 9, 0)] }
    RefUniq st ∧ (st.gc c true true true 5).1.lookupRef (.tag 0) = some (9, 0) ∧
      (st.gc c true true true 5).1.lookupRef (.tag 1) = some (9, 2) ∧
      (st.gc c true true true 5).1.lookupRef (.tag 2) = none := by
  intro c st
  have hu : RefUniq st := by unfold RefUniq; decide
  refine ⟨hu, ?_, ?_, ?_⟩
  · rw [c09_gc_keeps_names c true true true st 5 hu 0]; rfl
  · rw [c09_gc_keeps_names c true true true st 5 hu 1]; rfl
  · rw [c09_gc_keeps_names c true true true st 5 hu 2]; rfl

end Oras.Props.C09
