/-
  C03 — ExtendedCopy reaches every ancestor's graph; depth and filters bound it.
  Property theorems only.  Model: `Model/FindRoots.lean` (`extendedcopy.go`), helpers:
  `Proofs/FindRoots.lean`.  The copied set is `Down succ` of the roots (C01).
-/
import OrasModel.Proofs.FindRoots
import OrasModel.Proofs.FindRootsTerm
import OrasModel.Gen.Facts
namespace Oras.Props.C03
open Oras

/-- Downward closure through links. -/
inductive Down (succ : Node → List Node) : Node → Node → Prop
  | refl (a : Node) : Down succ a a
  | step {a b c : Node} : Down succ a b → c ∈ succ b → Down succ a c

theorem down_trans {succ : Node → List Node} {a b c : Node} (h1 : Down succ a b) (h2 : Down succ b c) :
    Down succ a c := by
  induction h2 with
  | refl => exact h1
  | step _ hc ih => exact Down.step ih hc

/-- If predecessors are the converse of links, an ancestor reaches the node downward. -/
theorem down_of_anc {succ preds : Node → List Node} (hps : ∀ p v, p ∈ preds v → v ∈ succ p)
    {k : Nat} {a r : Node} (h : AncN preds a k r) : Down succ r a := by
  induction h with
  | refl => exact Down.refl _
  | step _ hc ih => exact down_trans (Down.step (Down.refl _) (hps _ _ hc)) ih

theorem ancN_prepend {preds : Node → List Node} {v p : Node} (hp : p ∈ preds v) :
    ∀ {k : Nat} {x : Node}, AncN preds p k x → AncN preds v (k + 1) x := by
  intro k x hx
  induction hx with
  | refl => exact AncN.step (AncN.refl) hp
  | step _ hc ih => exact AncN.step ih hc

theorem ancN_succ_inv {preds : Node → List Node} {k : Nat} {a c : Node} (h : AncN preds a (k + 1) c) :
    ∃ b, AncN preds a k b ∧ c ∈ preds b := by
  cases h with
  | step hb hc => exact ⟨_, hb, hc⟩

section
variable (preds : Node → List Node) (depth : Nat) (n0 : Node) (fuel : Nat) (roots : List Node)

/-- **Depth bound**: every root has a predecessor path from the given node, of length at
    most `depth` when a limit is set; a root either has no (kept) predecessor or sits
    exactly at the limit.  So nothing outside the graphs of ancestors at most `depth`
    steps away is copied. -/
theorem c03_depth_bound (h : findRoots preds depth fuel n0 = some roots) :
    ∀ r ∈ roots, ∃ d, AncN preds n0 d r ∧ (depth > 0 → d ≤ depth) ∧
      (preds r = [] ∨ (depth > 0 ∧ d = depth)) := by
  unfold findRoots at h
  cases hr : frRun preds depth fuel (FRSt.init n0) with
  | none => simp [hr] at h
  | some s =>
    simp only [hr, Option.map, Option.some.injEq] at h
    subst h
    obtain ⟨inv, _⟩ := frRun_inv preds depth n0 fuel _ s (frInv_init preds depth n0) hr
    intro r hrr
    exact (inv.roots_ok r hrr).2

/-- **Own graph**: under any depth limit and any filter (i.e. any `preds`), provided the
    predecessor relation is well-founded upward (`ht`: a height function bounded by `H`),
    some root lies above the given node — so the node's own graph is inside the copied set. -/
theorem c03_self (ht : Node → Nat) (H : Nat) (hup : ∀ v p, p ∈ preds v → ht v < ht p)
    (hH : ∀ v, ht v ≤ H) (h : findRoots preds depth fuel n0 = some roots) :
    ∃ r ∈ roots, Anc preds n0 r := by
  unfold findRoots at h
  cases hr : frRun preds depth fuel (FRSt.init n0) with
  | none => simp [hr] at h
  | some s =>
    simp only [hr, Option.map, Option.some.injEq] at h
    subst h
    obtain ⟨inv, hemp⟩ := frRun_inv preds depth n0 fuel _ s (frInv_init preds depth n0) hr
    have cover : ∀ (m : Nat) (v : Node), v ∈ s.visited → H - ht v ≤ m → ∃ r ∈ s.roots, Anc preds v r := by
      intro m
      induction m with
      | zero =>
        intro v hv hm
        rcases inv.expanded v hv with h1 | ⟨hne, h1⟩
        · exact ⟨v, h1, 0, AncN.refl⟩
        · cases hp : preds v with
          | nil => exact absurd hp hne
          | cons p ps =>
            have hp' : p ∈ preds v := by rw [hp]; exact List.mem_cons_self
            have := hup v p hp'
            have := hH p
            omega
      | succ m ih =>
        intro v hv hm
        rcases inv.expanded v hv with h1 | ⟨hne, h1⟩
        · exact ⟨v, h1, 0, AncN.refl⟩
        · cases hp : preds v with
          | nil => exact absurd hp hne
          | cons p ps =>
            have hp' : p ∈ preds v := by rw [hp]; exact List.mem_cons_self
            have hpv : p ∈ s.visited := by
              rcases h1 p hp' with h2 | ⟨e, h2⟩
              · exact h2
              · rw [hemp] at h2; cases h2
            have hlt := hup v p hp'
            obtain ⟨r, hr1, k, hr2⟩ := ih p hpv (by omega)
            refine ⟨r, hr1, k + 1, ?_⟩
            exact ancN_prepend hp' hr2
    have hn0 : n0 ∈ s.visited := by
      rcases inv.start with h1 | ⟨e, h1⟩
      · exact h1
      · rw [hemp] at h1; cases h1
    exact cover (H - ht n0) n0 hn0 (Nat.le_refl _)

/-- **Unbounded, unfiltered: exactly the upward closure.**  With `depth = 0` every ancestor
    of the given node is visited, every root is an ancestor without predecessors, and every
    ancestor has a root above it. -/
theorem c03_unbounded_exact (ht : Node → Nat) (H : Nat) (hup : ∀ v p, p ∈ preds v → ht v < ht p)
    (hH : ∀ v, ht v ≤ H) (h : findRoots preds 0 fuel n0 = some roots) :
    (∀ r ∈ roots, Anc preds n0 r ∧ preds r = []) ∧
    (∀ a, Anc preds n0 a → ∃ r ∈ roots, Anc preds a r) := by
  unfold findRoots at h
  cases hr : frRun preds 0 fuel (FRSt.init n0) with
  | none => simp [hr] at h
  | some s =>
    simp only [hr, Option.map, Option.some.injEq] at h
    subst h
    obtain ⟨inv, hemp⟩ := frRun_inv preds 0 n0 fuel _ s (frInv_init preds 0 n0) hr
    have hn0 : n0 ∈ s.visited := by
      rcases inv.start with h1 | ⟨e, h1⟩
      · exact h1
      · rw [hemp] at h1; cases h1
    have rootsNoPreds : ∀ r ∈ s.roots, preds r = [] := by
      intro r hrr
      obtain ⟨_, d, _, _, h3⟩ := inv.roots_ok r hrr
      rcases h3 with h3 | ⟨h3, _⟩
      · exact h3
      · exact absurd h3 (Nat.lt_irrefl 0)
    have closed : ∀ (k : Nat) (a : Node), AncN preds n0 k a → a ∈ s.visited := by
      intro k
      induction k with
      | zero => intro a hk; cases hk; exact hn0
      | succ k ih =>
        intro a hk
        obtain ⟨b, hb, hc⟩ := ancN_succ_inv hk
        have hbv := ih b hb
        rcases inv.expanded _ hbv with h1 | ⟨_, h1⟩
        · rw [rootsNoPreds _ h1] at hc; cases hc
        · rcases h1 _ hc with h2 | ⟨e, h2⟩
          · exact h2
          · rw [hemp] at h2; cases h2
    refine ⟨fun r hrr => ⟨inv.visited_anc r (inv.roots_ok r hrr).1, rootsNoPreds r hrr⟩, ?_⟩
    intro a ⟨k, hk⟩
    have hav := closed k a hk
    -- a root above a visited node (as in c03_self, restated for `a`)
    have cover : ∀ (m : Nat) (v : Node), v ∈ s.visited → H - ht v ≤ m → ∃ r ∈ s.roots, Anc preds v r := by
      intro m
      induction m with
      | zero =>
        intro v hv hm
        rcases inv.expanded v hv with h1 | ⟨hne, h1⟩
        · exact ⟨v, h1, 0, AncN.refl⟩
        · cases hp : preds v with
          | nil => exact absurd hp hne
          | cons p ps =>
            have hp' : p ∈ preds v := by rw [hp]; exact List.mem_cons_self
            have := hup v p hp'
            have := hH p
            omega
      | succ m ih =>
        intro v hv hm
        rcases inv.expanded v hv with h1 | ⟨hne, h1⟩
        · exact ⟨v, h1, 0, AncN.refl⟩
        · cases hp : preds v with
          | nil => exact absurd hp hne
          | cons p ps =>
            have hp' : p ∈ preds v := by rw [hp]; exact List.mem_cons_self
            have hpv : p ∈ s.visited := by
              rcases h1 p hp' with h2 | ⟨e, h2⟩
              · exact h2
              · rw [hemp] at h2; cases h2
            have hlt := hup v p hp'
            obtain ⟨r, hr1, k, hr2⟩ := ih p hpv (by omega)
            refine ⟨r, hr1, k + 1, ?_⟩
            exact ancN_prepend hp' hr2
    exact cover (H - ht a) a hav (Nat.le_refl _)

/-- **The copied set** (composition with C01's closure): with unlimited depth and no
    filter, a node is below some root iff it is below some ancestor of the given node —
    the given node's full upward closure, no more, no less. -/
theorem c03_copied_set (succ : Node → List Node) (hps : ∀ p v, p ∈ preds v → v ∈ succ p)
    (ht : Node → Nat) (H : Nat) (hup : ∀ v p, p ∈ preds v → ht v < ht p) (hH : ∀ v, ht v ≤ H)
    (h : findRoots preds 0 fuel n0 = some roots) (x : Node) :
    (∃ r ∈ roots, Down succ r x) ↔ (∃ a, Anc preds n0 a ∧ Down succ a x) := by
  obtain ⟨h1, h2⟩ := c03_unbounded_exact preds n0 fuel roots ht H hup hH h
  constructor
  · rintro ⟨r, hr, hd⟩
    exact ⟨r, (h1 r hr).1, hd⟩
  · rintro ⟨a, ha, hd⟩
    obtain ⟨r, hr, k, hk⟩ := h2 a ha
    exact ⟨r, hr, down_trans (down_of_anc hps hk) hd⟩

end

/-! ### Filters -/

/-- **The artifact-type filter tests the manifest's own artifact type** (artifactType,
    else config media type) for image manifests, artifact manifests and indexes, whenever
    the source's descriptor is plain or carries that same type. -/
theorem c03_filter_exact (p : PredInfo)
    (hexcl : p.isArtifactManifest = true → p.isImageManifest = false)
    (hother : p.isArtifactManifest = false → p.isImageManifest = false → p.isIndex = false → p.manifestAT = "")
    (hdesc : p.descAT = "" ∨ p.descAT = specAT p) : filterAT p = specAT p := by
  unfold filterAT
  rcases hdesc with hd | hd
  · simp only [hd, ne_eq, not_true_eq_false, if_false]
    unfold specAT
    cases ha : p.isArtifactManifest
    · cases hi : p.isImageManifest
      · cases hx : p.isIndex
        · simp [hother ha hi hx]
        · by_cases hm : p.manifestAT = "" <;> simp [hm]
      · by_cases hm : p.manifestAT = "" <;> simp [hm]
    · simp only [if_true, hexcl ha]
      by_cases hm : p.manifestAT = "" <;> simp [hm]
  · by_cases he : p.descAT = ""
    · rw [he] at hd
      simp only [he, ne_eq, not_true_eq_false, if_false]
      -- descAT = "" = specAT p: fall back to the previous case
      unfold specAT at hd ⊢
      cases ha : p.isArtifactManifest
      · cases hi : p.isImageManifest
        · cases hx : p.isIndex
          · simp [hother ha hi hx]
          · by_cases hm : p.manifestAT = "" <;> simp [hm]
        · by_cases hm : p.manifestAT = "" <;> simp [hm]
      · simp only [if_true, hexcl ha]
        by_cases hm : p.manifestAT = "" <;> simp [hm]
    · simp only [ne_eq, he, not_false_eq_true, if_true]
      exact hd

/-- Finding F6 (repaired by a `fix:` commit): an image manifest whose `artifactType` is
    set used to be tested on its config media type.  The model now follows the repaired
    code; this is the former counterexample, now an instance of the theorem. -/
theorem c03_f6_witness_now_holds :
    let p : PredInfo := { isImageManifest := true, isArtifactManifest := false, isIndex := false,
                          descAT := "", manifestAT := "application/vnd.verif.sig",
                          configMT := "application/vnd.oci.empty.v1+json" }
    filterAT p = "application/vnd.verif.sig" := by
  decide

/-! ### Obligations on facts regenerated from /repo -/

/-- `FilterArtifactType` fetches image manifests, artifact manifests and indexes; for an
    image manifest `fetchArtifactType` consults `ArtifactType` before `Config`. -/
theorem c03_fetch_table :
    Gen.fetchATCases.lookup "application/vnd.oci.image.manifest.v1+json" = some ["ArtifactType", "Config"] ∧
    Gen.fetchATCases.lookup "application/vnd.oci.image.index.v1+json" = some ["ArtifactType"] ∧
    Gen.fetchATCases.lookup "application/vnd.oci.artifact.manifest.v1+json" = some ["ArtifactType"] ∧
    Gen.fetchATCases.all (fun r => Gen.filterATFetchTypes.contains r.1) = true ∧
    Gen.manifestTypes.all (fun t => Gen.filterAnnFetchTypes.contains t) = true := by
  refine ⟨by rfl, by rfl, by rfl, by decide, by decide⟩

/-- **`findRoots` terminates**: over any finite universe `U` closed under predecessors
    (every `preds` list bounded by `B`), for every depth limit and start node there is an
    amount of fuel — `|U|·(B+1) + 2` — with which the loop reaches its exit; the visited set
    makes every node expand at most once, whatever order `preds` returns.  Together with
    `c03_depth_bound`, `c03_self` and `c03_unbounded_exact` (which speak about the state at
    loop exit) this makes those statements total. -/
theorem c03_terminates (preds : Node → List Node) (depth : Nat) (U : List Node) (B : Nat)
    (hU : ∀ n ∈ U, ∀ p ∈ preds n, p ∈ U) (hB : ∀ n, (preds n).length ≤ B) (n0 : Node) (h0 : n0 ∈ U) :
    ∃ roots, findRoots preds depth (U.length * (B + 1) + 2) n0 = some roots := by
  have hin : StackIn U (FRSt.init n0) := by
    intro e he
    simp only [FRSt.init, List.mem_singleton] at he
    rw [he]; exact h0
  have hm : frMeasure U B (FRSt.init n0) < U.length * (B + 1) + 2 := by
    have hc : unvisited U [] ≤ U.length := by unfold unvisited; exact List.countP_le_length
    have hmul := Nat.mul_le_mul_right (B + 1) hc
    show unvisited U [] * (B + 1) + 1 < U.length * (B + 1) + 2
    omega
  have := frRun_terminates preds depth U B hU hB _ (FRSt.init n0) hin hm
  unfold findRoots
  cases hr : frRun preds depth (U.length * (B + 1) + 2) (FRSt.init n0) with
  | none => rw [hr] at this; cases this
  | some s => exact ⟨s.roots, rfl⟩

/-- Non-vacuity / depth is not completeness: a diamond where the DFS reaches a node first
    through the long path, so with `depth = 2` an ancestor that is 2 steps away by the short
    path is cut off at the limit — allowed by the property ("nothing outside"), shown here. -/
example :
    let preds : Node → List Node := fun n => if n = 0 then [1, 2] else if n = 2 then [1] else if n = 1 then [3] else []
    findRoots preds 0 20 0 = some [3] ∧ findRoots preds 2 20 0 = some [1] := by
  decide

end Oras.Props.C03
