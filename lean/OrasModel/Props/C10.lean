/-
  C10 — A process crash never leaves an OCI layout unreadable, corrupt or half-updated.
  Property theorems only.  Model: `Model/CrashFS.lean`; source facts: `Gen/Facts.lean`.
-/
import OrasModel.Model.CrashFS
import OrasModel.Gen.Facts
namespace Oras.Props.C10
open Oras

theorem valid_step (L : Layout) (s : Sys) (rest : List Sys) (hv : L.Valid) (hs : Safe L (s :: rest)) :
    (s.apply L).Valid ∧ Safe (s.apply L) rest := by
  obtain ⟨idx, hidx, hall⟩ := hv
  simp only [Safe] at hs
  obtain ⟨h1, h2⟩ := hs
  refine ⟨?_, h2⟩
  cases s with
  | createTemp => exact ⟨idx, hidx, hall⟩
  | writeTemp => exact ⟨idx, hidx, hall⟩
  | chmodTemp => exact ⟨idx, hidx, hall⟩
  | renameBlob n => exact ⟨idx, hidx, fun e he => List.mem_cons_of_mem _ (hall e he)⟩
  | removeBlob n =>
    refine ⟨idx, hidx, ?_⟩
    intro e he
    simp only [Sys.apply, List.mem_filter, ne_eq, decide_not, Bool.not_eq_eq_eq_not, Bool.not_true,
      decide_eq_false_iff_not]
    exact ⟨hall e he, h1.1 idx hidx e he⟩
  | truncIndex => exact absurd h1 (by simp)
  | writeIndex i => exact absurd h1 (by simp)
  | truncIndexTmp => exact ⟨idx, hidx, hall⟩
  | writeIndexTmp i => exact ⟨idx, hidx, hall⟩
  | renameIndex =>
    obtain ⟨i, hi, hiall⟩ := h1
    exact ⟨i, by simp [Sys.apply, hi], hiall⟩

/-- **Crash consistency**: from a valid layout, after *every prefix* of a safe script —
    i.e. whatever system call the process is killed before — the layout can be opened and
    every index entry names an existing (complete, hash-named) blob. -/
theorem c10_crash_consistent (script : List Sys) : ∀ (L : Layout), L.Valid → Safe L script →
    ∀ k, (runSys L (script.take k)).Valid := by
  induction script with
  | nil => intro L hv _ k; simpa [runSys] using hv
  | cons s rest ih =>
    intro L hv hs k
    cases k with
    | zero => simpa [runSys] using hv
    | succ k =>
      obtain ⟨hv', hs'⟩ := valid_step L s rest hv hs
      simp only [List.take_succ_cons, runSys, List.foldl_cons]
      exact ih (s.apply L) hv' hs' k

/-- **Old or new, never half**: at every crash point of an atomic index save, `index.json`
    is the old document or the new one. -/
theorem c10_index_old_or_new (L : Layout) (idx' : Idx) (k : Nat) :
    (runSys L ((compileSave true idx').take k)).index = L.index ∨
    (runSys L ((compileSave true idx').take k)).index = some idx' := by
  unfold compileSave
  simp only [if_true]
  match k with
  | 0 => left; rfl
  | 1 => left; rfl
  | 2 => left; rfl
  | k + 3 => right; simp [runSys, Sys.apply]

/-- The atomic save of an index whose entries all have blobs is a safe script. -/
theorem c10_save_safe (L : Layout) (idx' : Idx) (h : ∀ e ∈ idx', e.2 ∈ L.blobs) :
    Safe L (compileSave true idx') := by
  simp only [compileSave, if_true, Safe, Sys.apply, and_true, true_and]
  exact ⟨h, idx', rfl, h⟩

/-- Pushing a manifest (blob first, then the index that lists it) is safe. -/
theorem c10_push_manifest_safe (L : Layout) (n : Node) (idx' : Idx)
    (h : ∀ e ∈ idx', e.2 = n ∨ e.2 ∈ L.blobs) : Safe L (compilePushManifest true n idx') := by
  have h' : ∀ e ∈ idx', e.2 ∈ n :: L.blobs := by
    intro e he
    rcases h e he with h1 | h1
    · rw [h1]; exact List.mem_cons_self
    · exact List.mem_cons_of_mem _ h1
  simp only [compilePushManifest, compilePushBlob, compileSave, if_true, List.cons_append,
    List.nil_append, Safe, Sys.apply, and_true, true_and]
  exact ⟨h', idx', rfl, h'⟩

/-- Deleting one node — save an index that no longer lists it, *then* remove the blob — is
    safe; so is the whole auto-GC cascade, one node after the other. -/
theorem c10_delete_one_safe (L : Layout) (n : Node) (idx' : Idx)
    (hblobs : ∀ e ∈ idx', e.2 ∈ L.blobs) (hnot : ∀ e ∈ idx', e.2 ≠ n) :
    Safe L (compileDeleteOne true (some idx') n) := by
  simp only [compileDeleteOne, compileSave, if_true, List.cons_append, List.nil_append, Safe,
    Sys.apply, and_true, true_and]
  refine ⟨hblobs, ⟨idx', rfl, hblobs⟩, ?_, ?_⟩
  · intro idx hidx e he
    injection hidx with hidx
    subst hidx
    exact hnot e he
  · intro idx hidx; cases hidx

/-- Removing a blob that the current index does not list (an untagged dangling node, or a
    blob after its index entry was dropped) is safe. -/
theorem c10_remove_unlisted_safe (L : Layout) (n : Node)
    (h1 : ∀ idx, L.index = some idx → ∀ e ∈ idx, e.2 ≠ n) (h2 : L.indexTmp = none) :
    Safe L (compileDeleteOne true none n) := by
  simp only [compileDeleteOne, List.nil_append, Safe, and_true]
  exact ⟨h1, by intro idx hidx; rw [h2] at hidx; cases hidx⟩

/-- **The in-place write is not crash-safe** (finding F4, repaired): killed after the
    truncation, `index.json` cannot be decoded. -/
theorem c10_counterexample_truncated_index :
    ¬ (runSys ⟨[1], some [(some 0, 1)], none⟩ ((compileSave false [(some 0, 1)]).take 1)).Valid := by
  intro ⟨idx, h, _⟩
  simp [runSys, compileSave, Sys.apply] at h

/-! ### Obligations on the source's call order (re-extracted on every run) -/

def callsOf (fn : String) : List String := (Gen.ociCalls.lookup fn).getD []

/-- position of the first occurrence -/
def pos (l : List String) (x : String) : Option Nat :=
  let rec go : List String → Nat → Option Nat
    | [], _ => none
    | y :: ys, i => if y == x then some i else go ys (i + 1)
  go l 0

def before (fn a b : String) : Bool :=
  match pos (callsOf fn) a, pos (callsOf fn) b with
  | some i, some j => i < j
  | _, _ => false

/-- `writeIndexFile` writes a temporary file and renames it; `Store.delete` saves the index
    before deleting the blob; `GC` saves the index before removing files; `Storage.Push`
    ingests (verify + chmod) before the rename that makes the blob visible. -/
theorem c10_sequences_match :
    before "Store.writeIndexFile" "os.WriteFile" "os.Rename" = true ∧
    before "Store.delete" "s.saveIndex" "s.storage.Delete" = true ∧
    before "Store.GC" "s.saveIndex" "os.Remove" = true ∧
    before "Storage.Push" "s.ingest" "os.Rename" = true ∧
    before "Storage.ingest" "ioutil.CopyBuffer" "os.Chmod" = true := by
  decide

/-- Non-vacuity: a cascade delete script on a concrete layout, every prefix valid. -/
example :
    let L : Layout := ⟨[1, 2, 3], some [(some 0, 1), (none, 2)], none⟩
    let script := compileDeleteOne true (some [(none, 2)]) 1 ++ compileDeleteOne true (some []) 2
    (List.range (script.length + 1)).all (fun k =>
      match (runSys L (script.take k)).index with
      | some idx => idx.all (fun e => (runSys L (script.take k)).blobs.contains e.2)
      | none => false) = true := by
  decide

end Oras.Props.C10
