/-
  C05 — Only content matching its descriptor ever becomes visible in a store.
  Property theorems only.  Model: `Model/Verify.lean`; helpers: `Proofs/Verify.lean`.
-/
import OrasModel.Proofs.Verify
namespace Oras.Props.C05
open Oras

variable {Dig : Type} [DecidableEq Dig] (H : Bytes → Dig)

/-- `ReadAll`/`FetchAll` hand back data without error **iff** the size is non-negative,
    the digest is well-formed, the reader delivers exactly the returned bytes followed by
    a clean EOF, their length is `Size` and their hash is `Digest` — for every chunking,
    zero-length reads, and error position.  Every other reader/descriptor is an error. -/
theorem c05_readAll_iff (d : VDesc Dig) (r : Reader) (b : Bytes) :
    readAll H d r = .ok b ↔
      (0 ≤ d.size ∧ d.dig = some (H b) ∧ (b.length : Int) = d.size ∧ delivered r = (b, true)) := by
  constructor
  · intro h
    unfold readAll at h
    by_cases hs : d.size < 0
    · simp [hs] at h
    · simp only [hs, if_false] at h
      cases hdg : d.dig with
      | none => simp [hdg] at h
      | some dg =>
        simp only [hdg] at h
        cases hp : pull r d.size.toNat [] with
        | error e => simp [hp, Except.bind] at h
        | ok p =>
          obtain ⟨out, rest⟩ := p
          simp only [hp, Except.bind, verifyTail] at h
          by_cases he : atEOF rest = true
          · simp only [he, Bool.not_true, Bool.false_eq_true, if_false] at h
            by_cases hh : H out = dg
            · simp only [hh, ne_eq, not_true_eq_false, if_false] at h
              injection h with h
              subst h
              obtain ⟨b', hb1, hb2, hb3, hb4⟩ := pull_ok r _ [] _ rest hp
              simp at hb1; subst hb1
              have hr := (atEOF_iff rest).mp he
              refine ⟨by omega, by rw [hh], by omega, ?_⟩
              rw [hr] at hb3 hb4
              simp at hb3
              exact Prod.ext hb3 hb4
            · simp [hh] at h
          · simp [he] at h
  · rintro ⟨hs, hdg, hlen, hdel⟩
    unfold readAll
    have hs' : ¬ d.size < 0 := by omega
    simp only [hs', if_false, hdg]
    obtain ⟨rest, hp, he⟩ := pull_complete r d.size.toNat [] b hdel (by omega)
    simp [hp, Except.bind, verifyTail, he]

/-- Bytes beyond `Size` are an error for `ReadAll` (never silently dropped). -/
theorem c05_readAll_trailing (d : VDesc Dig) (r : Reader) (b : Bytes)
    (hd : (delivered r).1.length > d.size.toNat) : readAll H d r ≠ .ok b := by
  intro h
  have := (c05_readAll_iff H d r b).mp h
  obtain ⟨h0, _, hlen, hdel⟩ := this
  rw [hdel] at hd
  simp at hd
  omega

/-- With the repair of F7, `CopyBuffer` (the path of the OCI layout and the file store)
    accepts exactly what `ReadAll` accepts. -/
theorem c05_copyBuffer_eq_readAll (d : VDesc Dig) (r : Reader) :
    copyBuffer H d r = readAll H d r := by
  unfold copyBuffer readAll
  rfl

/-- `CopyBuffer`: success means the bytes written are exactly what the reader delivered up
    to a clean EOF, `Size` of them, hashing to `Digest`. -/
theorem c05_copyBuffer_sound (d : VDesc Dig) (r : Reader) (b : Bytes)
    (h : copyBuffer H d r = .ok b) :
    0 ≤ d.size ∧ d.dig = some (H b) ∧ (b.length : Int) = d.size ∧ delivered r = (b, true) := by
  rw [c05_copyBuffer_eq_readAll] at h
  exact (c05_readAll_iff H d r b).mp h

/-- Finding F7 (repaired by a `fix:` commit): before the repair a descriptor of size −1
    with the digest of the empty string was accepted with empty content.  The model now
    rejects it, as the code does; the harness replays the same witness on every run. -/
theorem c05_negative_size_rejected (dg : Option Bytes) (r : Reader) :
    copyBuffer (Dig := Bytes) id ⟨dg, -1⟩ r = .error .invalidSize := by
  unfold copyBuffer; simp

/-- `cas.Memory.Push`: the visible map changes only on success, and then by exactly
    `key ↦ verified bytes`; a refused or failed push changes nothing. -/
theorem c05_memPush_visible {κ : Type} [DecidableEq κ] (m : CMap κ) (k : κ) (d : VDesc Dig) (r : Reader) :
    ((memPush H m k d r).2 = .ok () →
        m.get k = none ∧ ∃ b, (memPush H m k d r).1.get k = some b ∧ d.dig = some (H b) ∧
          (b.length : Int) = d.size ∧ delivered r = (b, true) ∧
          ∀ k', k' ≠ k → (memPush H m k d r).1.get k' = m.get k') ∧
    ((memPush H m k d r).2 ≠ .ok () → (memPush H m k d r).1 = m) := by
  unfold memPush
  cases hg : m.get k with
  | some v => simp
  | none =>
    cases hr : readAll H d r with
    | error e => simp
    | ok b =>
      simp only [true_and, ne_eq, not_true_eq_false, false_implies, and_true, forall_const]
      obtain ⟨_, h2, h3, h4⟩ := (c05_readAll_iff H d r b).mp hr
      exact ⟨b, CMap.get_cons_same m k b, h2, h3, h4, fun k' hk => CMap.get_cons_other m k k' b hk⟩

/-- OCI layout `Storage.Push`: a file appears under `blobs/` only on success, named by the
    hash of exactly the bytes delivered; failure leaves the listing unchanged. -/
theorem c05_ociPush_visible (m : CMap Dig) (d : VDesc Dig) (r : Reader) :
    ((ociPush H m d r).2 = .ok () →
        ∃ b, d.dig = some (H b) ∧ m.get (H b) = none ∧ (ociPush H m d r).1.get (H b) = some b ∧
          b.length = d.size.toNat ∧ delivered r = (b, true) ∧
          ∀ k', k' ≠ H b → (ociPush H m d r).1.get k' = m.get k') ∧
    ((ociPush H m d r).2 ≠ .ok () → (ociPush H m d r).1 = m) := by
  unfold ociPush
  cases hdg : d.dig with
  | none => simp
  | some dg =>
    simp only
    cases hg : m.get dg with
    | some v => simp
    | none =>
      cases hr : copyBuffer H d r with
      | error e => simp
      | ok b =>
        simp only [ne_eq, not_true_eq_false, false_implies, and_true, forall_const]
        obtain ⟨_, h2, h3', h4⟩ := c05_copyBuffer_sound H d r b hr
        have h3 : b.length = d.size.toNat := by omega
        rw [hdg] at h2
        injection h2 with h2
        subst h2
        exact ⟨b, rfl, hg, CMap.get_cons_same m _ b, h3, h4,
          fun k' hk => CMap.get_cons_other m _ k' b hk⟩

/-- Every blob visible in an OCI layout is named by the hash of its bytes. -/
def Good (m : CMap Dig) : Prop := ∀ dg b, m.get dg = some b → H b = dg

/-- Any sequence of pushes — good and bad content, repeated digests, in any order (the
    serialisation of concurrent pushes at the atomic `rename`) — preserves `Good`. -/
theorem c05_pushes_good (ps : List (VDesc Dig × Reader)) (m : CMap Dig) (hm : Good H m) :
    Good H (ps.foldl (fun m p => (ociPush H m p.1 p.2).1) m) := by
  induction ps generalizing m with
  | nil => exact hm
  | cons p ps ih =>
    apply ih
    intro dg b hget
    simp only at hget
    have hv := c05_ociPush_visible H m p.1 p.2
    by_cases hok : (ociPush H m p.1 p.2).2 = .ok ()
    · obtain ⟨b', _, _, hb3, _, _, hb6⟩ := hv.1 hok
      by_cases e : dg = H b'
      · subst e
        rw [hb3] at hget
        injection hget with hget
        subst hget; rfl
      · rw [hb6 dg e] at hget
        exact hm dg b hget
    · rw [hv.2 hok] at hget
      exact hm dg b hget

/-- `LimitedStorage.Push`: oversize is refused before reading; otherwise as `Memory.Push`
    on the first `Size` bytes. -/
theorem c05_limitedPush_sound {κ : Type} [DecidableEq κ] (limit : Int) (m : CMap κ) (k : κ)
    (d : VDesc Dig) (r : Reader) (h : (limitedPush H limit m k d r).2 = .ok ()) :
    d.size ≤ limit ∧ ∃ b, (limitedPush H limit m k d r).1.get k = some b ∧ d.dig = some (H b) ∧
      (b.length : Int) = d.size := by
  unfold limitedPush at h ⊢
  by_cases hl : d.size > limit
  · simp [hl] at h
  · simp only [hl, if_false] at h ⊢
    obtain ⟨_, b, h1, h2, h3, _⟩ := (c05_memPush_visible H m k d _).1 h
    exact ⟨by omega, b, h1, h2, h3⟩

/-- Non-vacuity: a reader that delivers `[1,2,3]` in chunks `[1]`, `[]`, `[2,3]`+EOF is
    accepted for the right descriptor, rejected for a short size (trailing data), a long
    size (unexpected EOF), a wrong digest, and when it fails after the last byte. -/
example :
    readAll (Dig := Bytes) id ⟨some [1,2,3], 3⟩ [.data [1], .data [], .dataEof [2,3]] = .ok [1,2,3] ∧
    readAll (Dig := Bytes) id ⟨some [1,2], 2⟩ [.data [1], .data [], .dataEof [2,3]] = .error .trailingData ∧
    readAll (Dig := Bytes) id ⟨some [1,2,3], 4⟩ [.data [1], .data [], .dataEof [2,3]] = .error .unexpectedEOF ∧
    readAll (Dig := Bytes) id ⟨some [9], 3⟩ [.data [1], .data [], .dataEof [2,3]] = .error .mismatchedDigest ∧
    readAll (Dig := Bytes) id ⟨some [1,2,3], 3⟩ [.data [1], .dataErr [2,3]] = .error .readerErr ∧
    readAll (Dig := Bytes) id ⟨some [1,2,3], 3⟩ [.data [1], .dataErrOnce [2,3], .eof] = .error .readerErr ∧
    readAll (Dig := Bytes) id ⟨some [], -1⟩ [] = .error .invalidSize := by
  refine ⟨by rfl, by rfl, by rfl, by rfl, by rfl, by rfl, by rfl⟩

end Oras.Props.C05
