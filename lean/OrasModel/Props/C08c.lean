/-
  C08 — tarfs finds every entry of an archive whatever extension records it carries
  (`Model/TarOff.lean`).  Property theorems only.
-/
import OrasModel.Model.TarOff
import OrasModel.Gen.Facts
namespace Oras.Props.C08
open Oras Oras.TarOff

/-- **The recorded position is the entry's own header block**, for every archive: any number
    of entries, each with any number of extension records of any sizes.  A reader started there
    parses a plain header and stands at the same payload. -/
theorem c08_tarfs_recorded_is_header (start : Nat) (es : List TEnt) : recorded start es = headerOffs start es := by
  unfold recorded dataOffs
  rw [List.map_map]
  have : ((fun x => x - blockSize) ∘ fun x => x + blockSize) = id := by
    funext x; simp [blockSize]
  rw [this, List.map_id]

theorem padded_mod (n : Nat) : padded n % 512 = 0 := by unfold padded; omega

theorem extSum_mod (l : List Nat) : (l.map (fun x => blockSize + padded x)).sum % 512 = 0 := by
  induction l with
  | nil => rfl
  | cons a t ih =>
    simp only [List.map_cons, List.sum_cons]
    have h1 := padded_mod a
    have h2 : blockSize = 512 := rfl
    omega

/-- Positions are block-aligned when the archive starts block-aligned. -/
theorem c08_tarfs_aligned : ∀ (es : List TEnt) (start : Nat), start % 512 = 0 →
    ∀ p ∈ headerOffs start es, p % 512 = 0 := by
  intro es
  induction es with
  | nil => intro _ _ p hp; cases hp
  | cons e rest ih =>
    intro start hs p hp
    simp only [headerOffs, List.mem_cons] at hp
    have he : extLen e % 512 = 0 := extSum_mod e.ext
    rcases hp with h | h
    · subst h; omega
    · apply ih (start + entLen e) _ p h
      have h1 := padded_mod e.size
      have h2 : blockSize = 512 := rfl
      have h3 : entLen e = extLen e + blockSize + padded e.size := rfl
      omega

/-- Offsets computed from the payload sizes alone are right exactly as long as no entry has
    an extension record ... -/
theorem c08_tarfs_arith_without_ext : ∀ (es : List TEnt) (start : Nat), (∀ e ∈ es, e.ext = []) →
    arithOffs start es = headerOffs start es := by
  intro es
  induction es with
  | nil => intro _ _; rfl
  | cons e rest ih =>
    intro start h
    have he : e.ext = [] := h e List.mem_cons_self
    have h0 : extLen e = 0 := by unfold extLen; rw [he]; rfl
    have h1 : entLen e = blockSize + padded e.size := by unfold entLen; rw [h0]; omega
    simp only [arithOffs, headerOffs, h0, h1, Nat.add_zero]
    rw [ih _ (fun x hx => h x (List.mem_cons_of_mem _ hx))]
    congr 2
    omega

/-- ... and wrong as soon as one has (the seeded change C08/m8). -/
theorem c08_tarfs_counterexample_arith :
    arithOffs 0 [⟨[40], 10⟩, ⟨[], 3⟩] ≠ headerOffs 0 [⟨[40], 10⟩, ⟨[], 3⟩] := by
  decide

/-- The source records the reader's position after `Next`, minus one block. -/
theorem c08_tarfs_source_facts :
    Gen.tarfsIndexPos = ["tarFile.Seek(0, io.SeekCurrent)", "pos - blockSize"] ∧ Gen.tarfsBlockSize = 512 := by
  decide

end Oras.Props.C08
