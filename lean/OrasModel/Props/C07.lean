/-
  C07 — Predecessors is exact for every push order, after deletes, GC and reopen.

  Property theorems only; helper lemmas are in `Proofs/GraphMem.lean`.
  Model: `Model/GraphMem.lean` (`internal/graph/memory.go`).
-/
import OrasModel.Proofs.GraphMem
import OrasModel.Gen.Facts
namespace Oras.Props.C07
open Oras Oras.GMem

/-- Full-strength statement for the graph index: after *any* history of `index` /
    `Remove` calls (any push order, any deletes), for *every* queried key `k` (stored or
    not) the answer of `Predecessors k` is, as a duplicate-free list, exactly the stored
    nodes whose content links to `k`. -/
def C07_statement : Prop :=
  ∀ (succ : Key → List Key) (ops : List GOp) (k : Key),
    (∀ p, p ∈ (GMem.run succ ops).predecessors k ↔ (storedSpec ops p = true ∧ k ∈ succ p)) ∧
    ((GMem.run succ ops).predecessors k).Nodup

/-- No omissions, no extras: membership is exact. -/
theorem c07_exact (succ : Key → List Key) (ops : List GOp) (k p : Key) :
    p ∈ (GMem.run succ ops).predecessors k ↔ (storedSpec ops p = true ∧ k ∈ succ p) := by
  have h := (inv_run succ ops).preds_exact k p
  rw [nodes_run] at h
  exact h

/-- No duplicates. -/
theorem c07_nodup (succ : Key → List Key) (ops : List GOp) (k : Key) :
    ((GMem.run succ ops).predecessors k).Nodup :=
  (inv_run succ ops).preds_nodup k

theorem c07_statement_holds : C07_statement :=
  fun succ ops k => ⟨fun p => c07_exact succ ops k p, c07_nodup succ ops k⟩

/-- Order independence: two histories that leave the same set of nodes stored (e.g. two
    permutations of the same pushes, or concurrent pushes serialised by the lock in
    either order) give the same predecessor sets for every node. -/
theorem c07_order_independent (succ : Key → List Key) (ops₁ ops₂ : List GOp)
    (hs : ∀ p, storedSpec ops₁ p = storedSpec ops₂ p) (k p : Key) :
    p ∈ (GMem.run succ ops₁).predecessors k ↔ p ∈ (GMem.run succ ops₂).predecessors k := by
  rw [c07_exact, c07_exact, hs]

/-- `Remove` reports as dangling exactly the stored successors that lost their last
    stored predecessor. -/
theorem c07_danglings (succ : Key → List Key) (ops : List GOp) (n s : Key)
    (hn : storedSpec ops n = true) :
    s ∈ ((GMem.run succ ops).remove n).2 ↔
      (s ∈ succ n ∧ storedSpec ops s = true ∧
        ∀ p, p ≠ n → ¬ (storedSpec ops p = true ∧ s ∈ succ p)) := by
  have hinv := inv_run succ ops
  have hnodes : (GMem.run succ ops).nodes n = true := by rw [nodes_run]; exact hn
  simp only [GMem.remove, List.mem_filter, Bool.and_eq_true, List.isEmpty_iff]
  rw [nodes_run]
  constructor
  · rintro ⟨hs', hempty, hst⟩
    have hs : s ∈ succ n := (hinv.succs_stored n hnodes s).mp hs'
    refine ⟨hs, hst, ?_⟩
    intro p hpn hp
    simp only [hs', if_true] at hempty
    have hmem : p ∈ ((GMem.run succ ops).preds s).erase n := by
      rw [List.Nodup.mem_erase_iff (hinv.preds_nodup s)]
      refine ⟨hpn, ?_⟩
      rw [hinv.preds_exact, nodes_run]; exact hp
    rw [hempty] at hmem
    cases hmem
  · rintro ⟨hs, hst, hall⟩
    have hs' : s ∈ (GMem.run succ ops).succs n := (hinv.succs_stored n hnodes s).mpr hs
    refine ⟨hs', ?_, hst⟩
    simp only [hs', if_true]
    apply List.eq_nil_iff_forall_not_mem.mpr
    intro p hp
    rw [List.Nodup.mem_erase_iff (hinv.preds_nodup s)] at hp
    have := (hinv.preds_exact s p).mp hp.2
    rw [nodes_run] at this
    exact hall p hp.1 this

/-- Removing a freshly indexed node restores every predecessor set. -/
theorem c07_remove_undoes_index (succ : Key → List Key) (ops : List GOp) (n k p : Key)
    (hnew : storedSpec ops n = false) :
    p ∈ (GMem.run succ (ops ++ [.index n, .remove n])).predecessors k ↔
      p ∈ (GMem.run succ ops).predecessors k := by
  rw [c07_exact, c07_exact]
  have : ∀ q, storedSpec (ops ++ [.index n, .remove n]) q = storedSpec ops q := by
    intro q
    unfold storedSpec at hnew ⊢
    rw [List.foldl_append]
    simp only [List.foldl_cons, List.foldl_nil]
    by_cases e : q = n
    · subst e; simp only [if_true]; exact hnew.symm
    · simp only [e, if_false]
  rw [this]

/-- Non-vacuity: a concrete history (children first, parent, delete, re-push) on a graph
    with a shared blob and a node listed twice. -/
example :
    let succ : Key → List Key := fun n => if n = 10 then [1, 2, 2] else if n = 11 then [2, 10] else []
    let ops := [GOp.index 2, .index 11, .index 10, .index 1, .remove 11, .index 11]
    sortNat ((GMem.run succ ops).predecessors 2) = [10, 11] ∧
    (GMem.run succ ops).predecessors 10 = [11] ∧
    (GMem.run succ ops).predecessors 99 = [] := by
  decide

end Oras.Props.C07

/-! ### Obligations on facts regenerated from `/repo` (tie 1)

`content.Successors` is what feeds `index`; the model's `succ` is "config, layers,
blobs, manifests, subject".  The table below is re-extracted from `content/graph.go`
on every run; these lemmas pin each manifest kind to the link fields the property
names, and every manifest media type to a row. -/
namespace Oras.Props.C07
open Oras

def linkFields (mt : String) : Option (List String) := (Gen.successorsCases.lookup mt)

theorem c07_successors_docker_manifest :
    linkFields "application/vnd.docker.distribution.manifest.v2+json" = some ["Config", "Layers"] := by rfl
theorem c07_successors_oci_manifest :
    linkFields "application/vnd.oci.image.manifest.v1+json" = some ["Subject", "Config", "Layers"] := by rfl
theorem c07_successors_docker_list :
    linkFields "application/vnd.docker.distribution.manifest.list.v2+json" = some ["Manifests"] := by rfl
theorem c07_successors_oci_index :
    linkFields "application/vnd.oci.image.index.v1+json" = some ["Subject", "Manifests"] := by rfl
theorem c07_successors_artifact :
    linkFields "application/vnd.oci.artifact.manifest.v1+json" = some ["Subject", "Blobs"] := by rfl
/-- Every media type `IsManifest` recognises has a row in `Successors`. -/
theorem c07_every_manifest_type_has_links :
    Gen.manifestTypes.all (fun mt => (linkFields mt).isSome) = true := by decide

end Oras.Props.C07
