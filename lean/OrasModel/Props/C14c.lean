/-
  C14, end to end — no acknowledged referrers-index update is lost, for any number of
  concurrent callers and every interleaving of the batching protocol with the index
  read / apply / push it protects (`Model/MergeIdx.lean`).  Property theorems only; lemmas in
  `Proofs/MergeIdx.lean`, the protocol invariant in `Proofs/Merge.lean`.
-/
import OrasModel.Proofs.MergeIdx
namespace Oras.Props.C14
open Oras

/-- What the acknowledgement of caller `j`'s change promises about the stored index:
    an added referrer is listed unless some caller removes it; a removed referrer is not
    listed unless some caller adds it. -/
def Eff (chg : Nat → RChange) (idx : List RDesc) (j : Nat) : Prop :=
  match chg j with
  | .add d => d.key ≠ 0 → (∀ i d', chg i = .remove d' → d'.key ≠ d.key) → hasKey idx d.key = true
  | .remove d => (∀ i d', chg i = .add d' → d'.key ≠ d.key) → hasKey idx d.key = false

theorem miStep_merge (chg : Nat → RChange) (x y : MI) (h : MIStep chg x y) : MergeStep x.m y.m := by
  cases h with
  | assignOpen i hi hc => exact MergeStep.assignOpen x.m i hi hc
  | assignPending i hi hc => exact MergeStep.assignPending x.m i hi hc
  | takeMain i hi ht => exact MergeStep.takeMain x.m i hi ht
  | prepareOk i hi => exact MergeStep.prepareOk x.m i hi
  | prepareFail i hi => exact MergeStep.prepareFail x.m i hi
  | resolveOk i hi => exact MergeStep.resolveDone x.m i true hi
  | resolveFail i applied hi => exact MergeStep.resolveDone x.m i false hi

/-- Applying a batch keeps what earlier acknowledgements promised and establishes it for the
    members of the batch. -/
theorem eff_batch (chg : Nat → RChange) (hwf : ∀ i d, chg i = .add d → d.key ≠ 0)
    (idx : List RDesc) (items : List Nat) (j : Nat) (h : Eff chg idx j ∨ j ∈ items) :
    Eff chg (newIdx idx (items.map chg)) j := by
  have hwf' : ∀ c ∈ items.map chg, match c with | .add d => d.key ≠ 0 | .remove _ => True := by
    intro c hc
    obtain ⟨i, _, hi⟩ := List.mem_map.mp hc
    cases c with
    | add d => exact hwf i d hi
    | remove d => trivial
  unfold Eff at h ⊢
  cases hc : chg j with
  | add d =>
    simp only [hc] at h ⊢
    intro hk hnr
    apply newIdx_add idx _ d.key hk hwf'
    · intro d' hd'
      obtain ⟨i, _, hi⟩ := List.mem_map.mp hd'
      exact hnr i d' hi
    · rcases h with h | h
      · exact Or.inl (h hk hnr)
      · exact Or.inr ⟨d, List.mem_map.mpr ⟨j, h, hc⟩, rfl⟩
  | remove d =>
    simp only [hc] at h ⊢
    intro hna
    apply newIdx_remove idx _ d.key
    · intro d' hd'
      obtain ⟨i, _, hi⟩ := List.mem_map.mp hd'
      exact hna i d' hi
    · rcases h with h | h
      · exact Or.inl (h hna)
      · exact Or.inr ⟨d, List.mem_map.mpr ⟨j, h, hc⟩, rfl⟩

/-- The invariant of the composed system. -/
structure MIInv (chg : Nat → RChange) (x : MI) : Prop where
  merge : MergeInv x.m
  /-- the index the resolving main read is still the stored one: nobody else wrote -/
  snapOk : ∀ i, x.m.pc i = .resolving x.m.cur → x.snap = x.idx
  acked : ∀ j b, x.m.pc j = .done b true → Eff chg x.idx j

theorem miInv_step (chg : Nat → RChange) (hwf : ∀ i d, chg i = .add d → d.key ≠ 0)
    (x y : MI) (inv : MIInv chg x) (st : MIStep chg x y) : MIInv chg y := by
  have hm : MergeInv y.m := mergeInv_step _ _ inv.merge (miStep_merge chg x y st)
  -- after `complete`, nobody is resolving
  have noRes : ∀ (ok : Bool) (k : Nat), (x.m.complete ok).pc k ≠ .resolving (x.m.cur + 1) := by
    intro ok k hk
    simp only [MergeSt.complete] at hk
    by_cases hin : k ∈ x.m.items
    · simp [hin] at hk
    · simp only [hin, if_false] at hk
      have := (inv.merge.activeCur k (by rw [hk]; rfl)).2
      exact hin this
  cases st with
  | assignOpen i hi hc =>
    refine ⟨hm, ?_, ?_⟩
    · intro k hk
      simp only at hk
      by_cases e : k = i
      · simp [e] at hk
      · simp only [e, if_false] at hk; exact inv.snapOk k hk
    · intro j b hj
      simp only at hj
      by_cases e : j = i
      · simp [e] at hj
      · simp only [e, if_false] at hj; exact inv.acked j b hj
  | assignPending i hi hc =>
    refine ⟨hm, ?_, ?_⟩
    · intro k hk
      simp only at hk
      by_cases e : k = i
      · simp [e] at hk
      · simp only [e, if_false] at hk; exact inv.snapOk k hk
    · intro j b hj
      simp only at hj
      by_cases e : j = i
      · simp [e] at hj
      · simp only [e, if_false] at hj; exact inv.acked j b hj
  | takeMain i hi ht =>
    refine ⟨hm, ?_, ?_⟩
    · intro k hk
      simp only at hk
      by_cases e : k = i
      · simp [e] at hk
      · simp only [e, if_false] at hk; exact inv.snapOk k hk
    · intro j b hj
      simp only at hj
      by_cases e : j = i
      · simp [e] at hj
      · simp only [e, if_false] at hj; exact inv.acked j b hj
  | prepareOk i hi =>
    refine ⟨hm, fun _ _ => rfl, ?_⟩
    intro j b hj
    simp only at hj
    by_cases e : j = i
    · simp [e] at hj
    · simp only [e, if_false] at hj; exact inv.acked j b hj
  | prepareFail i hi =>
    refine ⟨hm, ?_, ?_⟩
    · intro k hk
      exact absurd hk (noRes false k)
    · intro j b hj
      simp only [MergeSt.complete] at hj
      by_cases hin : j ∈ x.m.items
      · simp [hin] at hj
      · simp only [hin, if_false] at hj; exact inv.acked j b hj
  | resolveOk i hi =>
    have hsnap := inv.snapOk i hi
    refine ⟨hm, ?_, ?_⟩
    · intro k hk
      exact absurd hk (noRes true k)
    · intro j b hj
      simp only [MergeSt.complete] at hj
      show Eff chg (newIdx x.snap (x.m.items.map chg)) j
      rw [hsnap]
      apply eff_batch chg hwf
      by_cases hin : j ∈ x.m.items
      · exact Or.inr hin
      · simp only [hin, if_false] at hj; exact Or.inl (inv.acked j b hj)
  | resolveFail i applied hi =>
    have hsnap := inv.snapOk i hi
    refine ⟨hm, ?_, ?_⟩
    · intro k hk
      exact absurd hk (noRes false k)
    · intro j b hj
      simp only [MergeSt.complete] at hj
      have hold : Eff chg x.idx j := by
        by_cases hin : j ∈ x.m.items
        · simp [hin] at hj
        · simp only [hin, if_false] at hj; exact inv.acked j b hj
      show Eff chg (if applied = true then newIdx x.snap (x.m.items.map chg) else x.idx) j
      cases applied with
      | false => exact hold
      | true =>
        simp only [if_true]
        rw [hsnap]
        exact eff_batch chg hwf x.idx x.m.items j (Or.inl hold)

theorem miInv_reach (chg : Nat → RChange) (hwf : ∀ i d, chg i = .add d → d.key ≠ 0) (idx0 : List RDesc)
    (x : MI) (h : MIReach chg idx0 x) : MIInv chg x := by
  induction h with
  | init =>
    refine ⟨mergeInv_init, ?_, ?_⟩
    · intro i hi; simp [MergeSt.init] at hi
    · intro j b hj; simp [MergeSt.init] at hj
  | step _ st ih => exact miInv_step chg hwf _ _ ih st

/-- **No acknowledged update is lost.**  In every reachable state of the batching protocol
    composed with the index it maintains — any number of callers, any interleaving, failing
    `prepare`s and failing or half-applied `resolve`s, an initial index with duplicates or
    empty entries — a caller whose `Do` returned success has its change reflected in the
    stored index: an added referrer is listed unless some caller removes that referrer, a
    removed referrer is not listed unless some caller adds it. -/
theorem c14_no_lost_update (chg : Nat → RChange) (hwf : ∀ i d, chg i = .add d → d.key ≠ 0)
    (idx0 : List RDesc) (x : MI) (h : MIReach chg idx0 x) (j b : Nat) (hj : x.m.pc j = .done b true) :
    match chg j with
    | .add d => (∀ i d', chg i = .remove d' → d'.key ≠ d.key) → hasKey x.idx d.key = true
    | .remove d => (∀ i d', chg i = .add d' → d'.key ≠ d.key) → hasKey x.idx d.key = false := by
  have := (miInv_reach chg hwf idx0 x h).acked j b hj
  unfold Eff at this
  cases hc : chg j with
  | add d => simp only [hc] at this ⊢; exact this (hwf j d hc)
  | remove d => simp only [hc] at this ⊢; exact this

/-- **The index a main applies its batch to is the stored one**: between the read in
    `prepare` and the write in `resolve` nobody else writes. -/
theorem c14_read_is_current (chg : Nat → RChange) (hwf : ∀ i d, chg i = .add d → d.key ≠ 0)
    (idx0 : List RDesc) (x : MI) (h : MIReach chg idx0 x) (i : Nat) (hi : x.m.pc i = .resolving x.m.cur) :
    x.snap = x.idx :=
  (miInv_reach chg hwf idx0 x h).snapOk i hi

/-- Non-vacuity: caller 0 adds referrer 5 and caller 1 removes referrer 2; 1 arrives while 0
    prepares, both are merged into batch 0, which is applied to the index `[2]` that 0 read.
    Both are acknowledged, and the stored index is `[5]`. -/
example :
    let chg : Nat → RChange := fun i => if i = 0 then .add ⟨5, 50⟩ else .remove ⟨2, 0⟩
    ∃ x : MI, MIReach chg [⟨2, 20⟩] x ∧ x.m.pc 0 = .done 0 true ∧ x.m.pc 1 = .done 0 true ∧ x.idx = [⟨5, 50⟩] := by
  intro chg
  let x0 : MI := ⟨MergeSt.init, [⟨2, 20⟩], []⟩
  let m0 := x0.m
  let m1 : MergeSt := { m0 with items := m0.items ++ [0], token := m0.token || m0.items.isEmpty,
                                pc := fun j => if j = 0 then .waiting m0.cur else m0.pc j }
  let x1 : MI := { x0 with m := m1 }
  let m2 : MergeSt := { m1 with token := false, pc := fun j => if j = 0 then .preparing m1.cur else m1.pc j }
  let x2 : MI := { x1 with m := m2 }
  let m3 : MergeSt := { m2 with items := m2.items ++ [1], token := m2.token || m2.items.isEmpty,
                                pc := fun j => if j = 1 then .waiting m2.cur else m2.pc j }
  let x3 : MI := { x2 with m := m3 }
  let m4 : MergeSt := { m3 with committed := true, pc := fun j => if j = 0 then .resolving m3.cur else m3.pc j }
  let x4 : MI := { m := m4, idx := x3.idx, snap := x3.idx }
  let m5 : MergeSt := { m4.complete true with resolved := (m4.cur, m4.items) :: m4.resolved }
  let x5 : MI := { m := m5, idx := newIdx x4.snap (m4.items.map chg), snap := x4.snap }
  refine ⟨x5, ?_, by rfl, by rfl, by decide⟩
  have r1 : MIReach chg [⟨2, 20⟩] x1 := .step .init (.assignOpen x0 0 rfl rfl)
  have r2 : MIReach chg [⟨2, 20⟩] x2 := .step r1 (.takeMain x1 0 rfl rfl)
  have r3 : MIReach chg [⟨2, 20⟩] x3 := .step r2 (.assignOpen x2 1 rfl rfl)
  have r4 : MIReach chg [⟨2, 20⟩] x4 := .step r3 (.prepareOk x3 0 rfl)
  exact .step r4 (.resolveOk x4 0 rfl)

end Oras.Props.C14
