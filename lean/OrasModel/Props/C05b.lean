/-
  C05 under concurrency — whatever the schedule and whatever the commit primitive, only
  content that was read and verified against the descriptor is ever committed
  (`Model/PushRace.lean`).  Property theorems only.
-/
import OrasModel.Proofs.PushRace
namespace Oras.Props.C05
open Oras Oras.PushRace

/-- **Only verified content becomes visible under concurrent pushes**: in every schedule, with
    either commit primitive, a stored key was committed by a pusher whose content matched, and
    a pusher whose content does not match is never accepted. -/
theorem c05_concurrent_only_verified_stored (cm : Commit) (good : Nat → Bool) (sched : List Nat) :
    let s := run cm (init good) sched
    (s.stored = true → ∃ i, (s.ps i).res = some .ok ∧ (s.ps i).good = true) ∧
    (∀ i, (s.ps i).good = false → (s.ps i).res ≠ some .ok) := by
  intro s
  have h := safe_run cm sched (init good) (safe_init good)
  constructor
  · intro hs
    obtain ⟨i, hi⟩ := h.storedBy hs
    exact ⟨i, hi, h.okGood i hi⟩
  · intro i hb hok
    have := h.okGood i hok
    rw [hb] at this
    cases this

end Oras.Props.C05
