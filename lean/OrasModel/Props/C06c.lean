/-
  C06 under concurrency — any number of `Push`es of one descriptor at once
  (`Model/PushRace.lean`): with a test-and-set commit (the memory store's `LoadOrStore`)
  exactly one is accepted in every schedule; with a blind commit (`rename(2)`, the OCI layout)
  two can be (F20).  Property theorems only; invariant in `Proofs/PushRace.lean`.
-/
import OrasModel.Proofs.PushRace
import OrasModel.Gen.Facts
namespace Oras.Props.C06
open Oras Oras.PushRace

/-- **At most one concurrent push of a descriptor is accepted, and the content is stored
    exactly when one was** - for every assignment of good / bad contents to the pushers and
    every schedule of their atomic steps. -/
theorem c06_concurrent_push_one_accepted (good : Nat → Bool) (sched : List Nat) :
    let s := run .testAndSet (init good) sched
    (∀ i j, (s.ps i).res = some .ok → (s.ps j).res = some .ok → i = j) ∧
    (s.stored = true ↔ ∃ i, (s.ps i).res = some .ok) := by
  intro s
  have h := inv_run good sched (init good) (inv_init good)
  exact ⟨h.uniq, h.storedIff⟩

/-- **When the pushers have returned**: if one of them had matching content, exactly one was
    accepted, and every other one was told "already exists" (matching content) or got its
    verification error (other content) - nobody else was accepted, nobody is left hanging. -/
theorem c06_concurrent_push_outcomes (good : Nat → Bool) (sched : List Nat) (k : Nat)
    (hk : good k = true) (hdone : ((run .testAndSet (init good) sched).ps k).pc = 3) :
    let s := run .testAndSet (init good) sched
    ∃ w, (s.ps w).res = some .ok ∧ good w = true ∧
      ∀ j, (s.ps j).pc = 3 → j ≠ w →
        (good j = true → (s.ps j).res = some .exists_) ∧
        (good j = false → (s.ps j).res = some .exists_ ∨ (s.ps j).res = some .verifyErr) := by
  intro s
  have h := inv_run good sched (init good) (inv_init good)
  have hst : s.stored = true := h.doneGood k hdone (by rw [h.goodFixed k]; exact hk)
  obtain ⟨w, hw⟩ := h.storedIff.mp hst
  refine ⟨w, hw, by rw [← h.goodFixed w]; exact h.okGood w hw, ?_⟩
  intro j hj hne
  have hres := h.doneRes j hj
  have hnotok : (s.ps j).res ≠ some .ok := fun e => hne (h.uniq j w e hw)
  cases hr : (s.ps j).res with
  | none => exact absurd hr hres
  | some r =>
    cases r with
    | ok => exact absurd hr hnotok
    | exists_ => exact ⟨fun _ => rfl, fun _ => Or.inl rfl⟩
    | verifyErr =>
      have hb := h.verifyBad j hr
      rw [h.goodFixed j] at hb
      exact ⟨fun hg => (by rw [hb] at hg; cases hg), fun _ => Or.inr rfl⟩

/-- Every scheduled pusher that has not returned makes progress, so `n` pushers return within
    `3·n` scheduled steps of a fair schedule (each needs at most three). -/
theorem c06_concurrent_push_progress (cm : Commit) (s : St) (i : Nat) (h : (s.ps i).pc < 3) :
    ((step cm s i).ps i).pc > (s.ps i).pc := step_progress cm s i h

/-- F20 as a theorem about the model: with a commit that replaces what is there, two pushers
    that both pass the existence check are both accepted. -/
theorem c06_counterexample_blind_commit :
    accepted (run .blind (init (fun _ => true)) [0, 1, 1, 1, 0, 0]) 2 = 2 ∧
    accepted (run .testAndSet (init (fun _ => true)) [0, 1, 1, 1, 0, 0]) 2 = 1 := by
  decide

/-- Non-vacuity: three pushers, one with wrong content, interleaved; all return, one accepted. -/
example :
    let s := run .testAndSet (init (fun i => i != 1)) [0, 1, 2, 0, 1, 2, 2, 0]
    (s.ps 0).pc = 3 ∧ (s.ps 1).pc = 3 ∧ (s.ps 2).pc = 3 ∧ accepted s 3 = 1 ∧
      (s.ps 1).res = some .verifyErr ∧ (s.ps 0).res = some .exists_ := by
  decide

/-- **Which commit the code uses**: the memory store checks (`Load`), reads and verifies
    (`ReadAll`), then commits with `LoadOrStore`; the OCI layout checks (`os.Stat`), ingests
    and verifies, then commits with `os.Rename`. -/
theorem c06_push_commit_source_facts :
    Gen.casCalls = [("Memory.Push", ["descriptor.FromOCI", "m.content.Load", "fmt.Errorf", "contentpkg.ReadAll",
      "m.content.LoadOrStore", "fmt.Errorf"])] ∧
    Gen.ociCalls.lookup "Storage.Push" = some ["fmt.Errorf", "filepath.Join", "os.Stat", "fmt.Errorf", "os.IsNotExist",
      "filepath.Dir", "s.ingest", "os.Rename", "os.Remove", "errors.Is", "fmt.Errorf"] := by
  decide

/-- **Every operation of the OCI layout store runs under the store's lock from its first
    statement to its return** (deferred unlock): readers and writers of tags, content and graph
    under the read lock, `Delete` and `GC` under the write lock, `saveIndex` under the index
    lock for its whole body.  `Untag` alone checks its argument for emptiness first.  This is
    what makes each call one atomic step in the refinement theorems of this file and of C07 /
    C08 / C09; the race monitors (`s tagrace`, `s pushdelrace`, `s pushreopen`) look for a
    concrete schedule when it no longer holds. -/
theorem c06_lock_discipline_source_facts :
    Gen.ociLockDiscipline =
      ["Fetch:0:s.sync.RLock:defer s.sync.RUnlock:[]", "Push:0:s.sync.RLock:defer s.sync.RUnlock:[]",
       "Exists:0:s.sync.RLock:defer s.sync.RUnlock:[]", "Delete:0:s.sync.Lock:defer s.sync.Unlock:[]",
       "Tag:0:s.sync.RLock:defer s.sync.RUnlock:[]", "Resolve:0:s.sync.RLock:defer s.sync.RUnlock:[]",
       "Untag:1:s.sync.RLock:defer s.sync.RUnlock:[if reference == \"\"]",
       "Predecessors:0:s.sync.RLock:defer s.sync.RUnlock:[]", "Tags:0:s.sync.RLock:defer s.sync.RUnlock:[]",
       "SaveIndex:0:s.sync.RLock:defer s.sync.RUnlock:[]", "saveIndex:0:s.indexLock.Lock:defer s.indexLock.Unlock:[]",
       "GC:0:s.sync.Lock:defer s.sync.Unlock:[]"] := by
  decide

end Oras.Props.C06
