/-
  C08 — An OCI layout on disk is always valid and reopens to the same observable state.
  Property theorems only.  Model: `Model/Oci.lean`; helpers: `Proofs/OciReopen.lean`.
-/
import OrasModel.Proofs.OciReopen
import OrasModel.Gen.Facts
namespace Oras.Props.C08
open Oras Oras.OciSt

/-- Digest references point at their own node (a reference is never another node's
    digest — the property's restriction, kept by `Push`/`Tag` of a node's own digest). -/
def DigInv (st : OciSt) : Prop := ∀ m n a, (RefKey.dig m, n, a) ∈ st.refs → m = n
/-- Every named node also has its digest reference (`Store.tag` tags the digest first). -/
def TagHasDig (st : OciSt) : Prop := ∀ nm n a, (RefKey.tag nm, n, a) ∈ st.refs → ∃ a', (RefKey.dig n, n, a') ∈ st.refs

/-- **Reopen keeps the tag → descriptor mapping**: after the index was saved (auto-save or
    `SaveIndex`), opening the directory again — read-write, through an `fs.FS`, or from a
    tar — resolves every reference name to the same node with the same annotations (the
    `org.opencontainers.image.ref.name` annotation aside), and names that did not resolve
    still do not.  For every store state with unique reference keys. -/
theorem c08_reopen_tags (c : OciCfg) (st : OciSt) (fuel : Nat) (hu : RefUniq st)
    (hsaved : st.indexFile = st.project) (nm : Nat) :
    (st.reopen c fuel).lookupRef (.tag nm) = st.lookupRef (.tag nm) := by
  unfold reopen
  rw [loadIndex_eq_foldl]
  simp only
  obtain ⟨h1, h2⟩ := lookup_foldl_applyEntry c st.blobs fuel (.tag nm) st.indexFile
    { OciSt.empty with blobs := st.blobs, indexFile := st.indexFile }
  cases hl : st.lookupRef (.tag nm) with
  | none =>
    rw [h1]
    · rfl
    · intro e he
      rw [hsaved] at he
      cases hp : provides e (.tag nm) with
      | false => rfl
      | true =>
        exfalso
        simp only [provides, beq_iff_eq] at hp
        rcases (mem_project st e).mp he with ⟨nm', hin, hname⟩ | ⟨hname, _, _⟩
        · rw [hname] at hp
          injection hp with hp
          subst hp
          have := lookup_of_mem st hu _ _ hin
          rw [hl] at this; cases this
        · rw [hname] at hp; cases hp
  | some v =>
    obtain ⟨n, a⟩ := v
    have hmem := mem_of_lookup st _ _ hl
    have hex : ∃ e ∈ st.indexFile, provides e (.tag nm) = true := by
      refine ⟨(n, some nm, a), ?_, by simp [provides]⟩
      rw [hsaved]
      exact (mem_project st _).mpr (Or.inl ⟨nm, hmem, rfl⟩)
    obtain ⟨e, he, hp, hv⟩ := h2 hex
    rw [hv]
    -- the provider is the entry written for this very reference
    rw [hsaved] at he
    simp only [provides, beq_iff_eq] at hp
    rcases (mem_project st e).mp he with ⟨nm', hin, hname⟩ | ⟨hname, _, _⟩
    · rw [hname] at hp
      injection hp with hp
      subst hp
      have := lookup_of_mem st hu _ _ hin
      rw [hl] at this
      exact this.symm
    · rw [hname] at hp; cases hp

/-- **Reopen keeps resolve-by-digest**: a digest resolves after reopening iff it resolved
    before, and to the same node (the descriptor returned for a digest is plain). -/
theorem c08_reopen_digests (c : OciCfg) (st : OciSt) (fuel : Nat) (hu : RefUniq st)
    (hd : DigInv st) (ht : TagHasDig st) (hsaved : st.indexFile = st.project) (n : Node) :
    ((st.reopen c fuel).lookupRef (.dig n)).map (·.1) = (st.lookupRef (.dig n)).map (·.1) := by
  unfold reopen
  rw [loadIndex_eq_foldl]
  simp only
  obtain ⟨h1, h2⟩ := lookup_foldl_applyEntry c st.blobs fuel (.dig n) st.indexFile
    { OciSt.empty with blobs := st.blobs, indexFile := st.indexFile }
  cases hl : st.lookupRef (.dig n) with
  | none =>
    rw [h1]
    · rfl
    · intro e he
      rw [hsaved] at he
      cases hp : provides e (.dig n) with
      | false => rfl
      | true =>
        exfalso
        simp only [provides, beq_iff_eq] at hp
        rcases (mem_project st e).mp he with ⟨nm', hin, _⟩ | ⟨_, ⟨m, hin⟩, _⟩
        · obtain ⟨a', hdig⟩ := ht _ _ _ hin
          rw [hp] at hdig
          have := lookup_of_mem st hu _ _ hdig
          rw [hl] at this; cases this
        · have hm := hd _ _ _ hin
          rw [hm, hp] at hin
          have := lookup_of_mem st hu _ _ hin
          rw [hl] at this; cases this
  | some v =>
    obtain ⟨n', a⟩ := v
    have hmem := mem_of_lookup st _ _ hl
    have hn' : n = n' := hd _ _ _ hmem
    subst hn'
    have hex : ∃ e ∈ st.indexFile, provides e (.dig n) = true := by
      rw [hsaved]
      by_cases htag : ∃ nm a', (RefKey.tag nm, n, a') ∈ st.refs
      · obtain ⟨nm, a', hin⟩ := htag
        exact ⟨(n, some nm, a'), (mem_project st _).mpr (Or.inl ⟨nm, hin, rfl⟩), by simp [provides]⟩
      · refine ⟨(n, none, a), (mem_project st _).mpr (Or.inr ⟨rfl, ⟨n, hmem⟩, ?_⟩), by simp [provides]⟩
        intro nm a' hin
        exact htag ⟨nm, a', hin⟩
    obtain ⟨e, _, hp, hv⟩ := h2 hex
    rw [hv]
    simp only [provides, beq_iff_eq] at hp
    simp [hp]

/-- The tag list (`Tags`) is the same set after reopening. -/
theorem c08_reopen_tag_names (c : OciCfg) (st : OciSt) (fuel : Nat) (hu : RefUniq st)
    (hsaved : st.indexFile = st.project) (nm : Nat) :
    ((st.reopen c fuel).lookupRef (.tag nm)).isSome = (st.lookupRef (.tag nm)).isSome := by
  rw [c08_reopen_tags c st fuel hu hsaved nm]

/-- **Every named index entry points to stored content**, as long as every reference does
    (`RefBlobInv`, which `Tag` establishes by checking existence and `Delete` keeps by
    untagging before removing the blob). -/
def RefBlobInv (st : OciSt) : Prop := ∀ e ∈ st.refs, e.2.1 ∈ st.blobs

theorem c08_index_entries_have_blobs (st : OciSt) (h : RefBlobInv st) :
    ∀ e ∈ st.project, e.1 ∈ st.blobs := by
  intro e he
  rcases (mem_project st e).mp he with ⟨nm, hin, _⟩ | ⟨_, ⟨m, hin⟩, _⟩
  · exact h _ hin
  · exact h _ hin

theorem c08_tag_keeps_refBlobInv (st : OciSt) (n : Node) (a : Nat) (k : Option RefKey) (h : RefBlobInv st) :
    RefBlobInv (st.tag n a k).1 := by
  unfold OciSt.tag
  cases k with
  | none => exact h
  | some k =>
    by_cases hb : n ∈ st.blobs
    · simp only [hb, if_true]
      have step : ∀ (s : OciSt) (k' : RefKey), RefBlobInv s → n ∈ s.blobs → RefBlobInv (s.resolverTag n a k') := by
        intro s k' hs hn e he
        simp only [resolverTag, List.mem_cons, List.mem_filter] at he ⊢
        rcases he with he | ⟨he, _⟩
        · subst he; exact hn
        · exact hs e he
      unfold tagInternal
      have hauto : ∀ (s : OciSt), RefBlobInv s → RefBlobInv s.autosave := by
        intro s hs
        unfold autosave
        split
        · exact hs
        · exact hs
      apply hauto
      split
      · exact step _ _ (step _ _ h hb) (by simpa using hb)
      · exact step _ _ h hb
    · simp only [hb, if_false]; exact h

/-- GC persists the pruned index in the current source (repair of F5; re-extracted fact). -/
theorem c08_gc_saves_index : Gen.gcSavesIndex = true := by decide

/-- Non-vacuity: tag, re-tag, untag, reopen on a concrete store. -/
example :
    let c : OciCfg := { succ := fun n => if n = 2 then [0, 1] else [], isMan := fun n => n == 2 || n == 3, subject := fun _ => none }
    let s := ((((((OciSt.empty.push c 0).1).push c 2).1.push c 3).1.tag 2 1 (some (.tag 7))).1.tag 3 0 (some (.tag 7))).1
    let r := s.reopen c 20
    s.indexFile = s.project ∧ r.lookupRef (.tag 7) = some (3, 0) ∧ (r.lookupRef (.dig 2)).map (·.1) = some 2 := by
  decide

end Oras.Props.C08
