/-
  C06, continued — the memory store and the file store (`Model/Stores.lean`).
  Property theorems only; helper lemmas and the file-store invariant are in
  `Proofs/Stores.lean`.  Same namespace as `Props/C06.lean`.
-/
import OrasModel.Proofs.Stores
import OrasModel.Spec.AbsStore
import OrasModel.Gen.Facts
namespace Oras.Props.C06
open Oras

/-! ### Memory store: refines the content map -/

def absMem (st : MemSt) : Node → Bool := fun n => decide (n ∈ st.content)

/-- **Memory `Push` refines `Abs.push`** on verified content: present content is refused
    with already-exists and nothing changes; absent content becomes present and nothing
    else does.  Content that does not verify is refused and nothing changes. -/
theorem c06_mem_push_refines (c : StoreCfg) (st : MemSt) (n : Node) (good : Bool) :
    (n ∈ st.content → st.push c n good = (st, .error .alreadyExists)) ∧
    (n ∉ st.content → good = false → st.push c n good = (st, .error .verify)) ∧
    (n ∉ st.content → good = true →
      (st.push c n good).2 = .ok () ∧
      (∀ m, absMem (st.push c n good).1 m = (if m = n then true else absMem st m)) ∧
      (st.push c n good).1.refs = st.refs) := by
  unfold MemSt.push
  refine ⟨fun h => by simp [h], fun h g => by simp [h, g], fun h g => ?_⟩
  simp only [h, if_false, g, Bool.not_true, Bool.false_eq_true, absMem, List.mem_cons, true_and, and_true]
  intro m
  by_cases e : m = n <;> simp [e]

/-- **Memory `Fetch`/`Exists`** answer from the content map, and what is fetched is what
    was asked for. -/
theorem c06_mem_fetch (st : MemSt) (n : Node) :
    (st.exists_ n = true → st.fetch n = .ok n) ∧ (st.exists_ n = false → st.fetch n = .error .notFound) := by
  unfold MemSt.exists_ MemSt.fetch
  by_cases h : n ∈ st.content <;> simp [h]

/-- **Memory `Tag`/`Resolve`**: tagging absent content is not-found and changes nothing;
    otherwise the reference resolves to the descriptor just tagged and every other
    reference resolves as before; content is untouched. -/
theorem c06_mem_tag_resolve (st : MemSt) (d : SDesc) (r : Option Nat) :
    (d.node ∉ st.content → st.tag d r = (st, .error .notFound)) ∧
    (d.node ∈ st.content →
      (st.tag d r).2 = .ok () ∧ (st.tag d r).1.resolve r = .ok d ∧
      (∀ r', r' ≠ r → (st.tag d r).1.resolve r' = st.resolve r') ∧
      (st.tag d r).1.content = st.content) := by
  unfold MemSt.tag
  refine ⟨fun h => by simp [h], fun h => ?_⟩
  simp only [h, if_true, true_and, and_true]
  refine ⟨by simp [MemSt.resolve, List.find?], ?_⟩
  intro r' hr'
  unfold MemSt.resolve
  have hne : (decide (r = r')) = false := by
    simp only [decide_eq_false_iff_not]; exact fun e => hr' e.symm
  rw [List.find?_cons]
  simp only [hne]
  rw [find_filter_ne st.refs r r' hr']

/-! ### File store -/

open FileSt in
/-- **The file-store invariant holds in every reachable state**: it holds initially and
    `Push` (named or not, verified or not, with duplicate restoration) and `Tag` keep it. -/
theorem c06_file_inv_reachable (c : StoreCfg) :
    FileSt.Inv FileSt.empty ∧
    (∀ st d good forceCAS noOverwrite removeOnFail ignoreNoName, FileSt.Inv st →
      FileSt.Inv (push c false st d good forceCAS noOverwrite removeOnFail ignoreNoName).1) ∧
    (∀ st d r, FileSt.Inv st → FileSt.Inv (tag c st d r).1) := by
  refine ⟨inv_empty, fun st d good fc no rf inn h => inv_push c st d good h fc no rf inn, ?_⟩
  intro st d r h
  unfold tag
  cases r with
  | none => exact h
  | some r =>
    simp only
    split
    · exact inv_congr _ st rfl rfl rfl h
    · exact h

open FileSt in
/-- **No operation ever returns bytes that do not match the descriptor**: whatever `Fetch`
    hands back — through the digest → path map or from the fallback store, for a named or
    a plain descriptor — is the content of the requested digest. -/
theorem c06_file_fetch_sound (c : StoreCfg) (st : FileSt) (d : SDesc) (b : FileBytes)
    (h : FileSt.Inv st) (hf : fetch c st d = .ok b) : b = .ok (c.dig d.node) := by
  unfold fetch at hf
  cases hg : gate st d with
  | false => simp only [hg, Bool.false_eq_true, if_false] at hf; cases hf
  | true =>
    simp only [hg, if_true] at hf
    cases hp : st.pathOf (c.dig d.node) with
    | some p =>
      have hfile := (h.d2p _ p hp).1
      simp only [hp, hfile] at hf
      injection hf with hf
      exact hf.symm
    | none =>
      simp only [hp] at hf
      by_cases hm : d.node ∈ st.fallback
      · simp only [hm, if_true] at hf
        injection hf with hf
        exact hf.symm
      · simp only [hm, if_false] at hf
        cases hf

open FileSt in
/-- **A refused or failed `Push` changes nothing observable**: after a push that returned
    an error (duplicate name, already exists, content that does not verify), `Exists` and
    `Fetch` answer every descriptor exactly as before. -/
theorem c06_file_failed_push_is_noop (c : StoreCfg) (st : FileSt) (d : SDesc) (good : Bool) (e : SErr)
    (forceCAS noOverwrite removeOnFail ignoreNoName : Bool)
    (h : FileSt.Inv st) (he : (push c false st d good forceCAS noOverwrite removeOnFail ignoreNoName).2 = .error e) :
    ∀ q, exists_ c (push c false st d good forceCAS noOverwrite removeOnFail ignoreNoName).1 q = exists_ c st q ∧
         fetch c (push c false st d good forceCAS noOverwrite removeOnFail ignoreNoName).1 q = fetch c st q := by
  unfold push at he ⊢
  by_cases hi : ignoreNoName = true ∧ d.name = none
  · simp [hi] at he
  simp only [hi, if_false] at he ⊢
  cases hname : d.name with
  | none =>
    simp only [hname] at he ⊢
    by_cases hf : d.node ∈ st.fallback
    · simp [hf]
    · cases good with
      | false => simp [hf]
      | true => simp [hf] at he
  | some nm =>
    simp only [hname] at he ⊢
    unfold pushNamed at he ⊢
    by_cases hn : nm ∈ st.names
    · simp [hn]
    · by_cases ho : noOverwrite = true ∧ (st.fileAt nm).isSome = true
      · simp [hn, ho]
      · cases good with
        | true => simp [hn, ho] at he
        | false =>
          simp only [hn, ho, if_false, Bool.false_eq_true]
          intro q
          cases removeOnFail with
          | true =>
            simp only [if_true]
            constructor
            · rfl
            · -- the removed file was not one the digest map points to
              unfold fetch
              simp only [pathOf_removeFile]
              have hgate : gate (st.removeFile nm) q = gate st q := rfl
              have hfb : (st.removeFile nm).fallback = st.fallback := rfl
              rw [hgate, hfb]
              cases hp : st.pathOf (c.dig q.node) with
              | none => rfl
              | some p =>
                have hpn : p ≠ nm := fun e' => hn (e' ▸ (h.d2p _ p hp).2)
                simp only [fileAt_removeFile_ne _ _ _ hpn]
          | false =>
            simp only [Bool.false_eq_true, if_false]
            constructor
            · rfl
            · -- only the file at the not-yet-existing name `nm` changed; every path the map
              -- points to is an existing name
              unfold fetch
              simp only [pathOf_writeFile]
              have hgate : gate (st.writeFile nm .garbage) q = gate st q := rfl
              have hfb : (st.writeFile nm .garbage).fallback = st.fallback := rfl
              rw [hgate, hfb]
              cases hp : st.pathOf (c.dig q.node) with
              | none => rfl
              | some p =>
                have hpn : p ≠ nm := fun e' => hn (e' ▸ (h.d2p _ p hp).2)
                simp only [fileAt_writeFile, hpn, if_false]

open FileSt in
/-- **A failed push does not stand in the way of its own retry**, also under
    `DisableOverwrite` — given that the partially written file is removed (the code since the
    repair of F21): after a push to a free name failed verification, the same push with the
    right content is accepted.  Without the removal it is refused (`overwrite`): the
    counterexample that was replayed on the code. -/
theorem c06_file_retry_after_failed_push (c : StoreCfg) (st : FileSt) (n : Node) (nm : Nat)
    (hn : nm ∉ st.names) (hfree : st.fileAt nm = none) (hb : c.isMan n = false) :
    let afterFail := (push c false st ⟨n, some nm⟩ false false true true).1
    (push c false afterFail ⟨n, some nm⟩ true false true true).2 = .ok () ∧
    (push c false (push c false st ⟨n, some nm⟩ false false true false).1 ⟨n, some nm⟩ true false true false).2
      = .error .overwrite := by
  have hrm : (st.removeFile nm).fileAt nm = none := by
    unfold fileAt removeFile
    simp only
    have : ∀ l : List (Nat × FileBytes), (l.filter (·.1 ≠ nm)).find? (·.1 = nm) = none := by
      intro l
      induction l with
      | nil => rfl
      | cons e es ih =>
        rw [List.filter_cons]
        by_cases he : e.1 = nm
        · simp [he, ih]
        · simp only [ne_eq, he, not_false_eq_true, decide_true, if_true]
          rw [List.find?_cons]
          simp [he, ih]
    rw [this]; rfl
  have hwr : (st.writeFile nm .garbage).fileAt nm = some .garbage := by
    rw [fileAt_writeFile]; simp
  have h1 : (push c false st ⟨n, some nm⟩ false false true true).1 = st.removeFile nm := by
    simp [push, pushNamed, hn, hfree]
  have h2 : (push c false st ⟨n, some nm⟩ false false true false).1 = st.writeFile nm .garbage := by
    simp [push, pushNamed, hn, hfree]
  have hn1 : nm ∉ (st.removeFile nm).names := hn
  have hn2 : nm ∉ (st.writeFile nm .garbage).names := hn
  constructor
  · show (push c false (push c false st ⟨n, some nm⟩ false false true true).1 ⟨n, some nm⟩ true false true true).2 = _
    rw [h1]
    simp only [push, pushNamed, hn1, hrm, hb]
    simp
  · rw [h2]
    simp only [push, pushNamed, hn2, hwr]
    simp

open FileSt in
/-- **A name is written once**: pushing to a name that exists is refused with
    duplicate-name and the state is unchanged. -/
theorem c06_file_duplicate_name (c : StoreCfg) (re : Bool) (st : FileSt) (n : Node) (nm : Nat) (good : Bool)
    (h : nm ∈ st.names) : push c re st ⟨n, some nm⟩ good = (st, .error .duplicateName) := by
  simp [push, pushNamed, h]

open FileSt in
/-- **Fetch returns the pushed bytes**: after a verified push of a blob under a new name it
    exists and is fetched back under its name and by its plain descriptor. -/
theorem c06_file_fetch_after_push (c : StoreCfg) (st : FileSt) (n : Node) (nm : Nat)
    (hn : nm ∉ st.names) (hb : c.isMan n = false) :
    let st' := (push c false st ⟨n, some nm⟩ true).1
    (push c false st ⟨n, some nm⟩ true).2 = .ok () ∧
    exists_ c st' ⟨n, some nm⟩ = true ∧ exists_ c st' ⟨n, none⟩ = true ∧
    fetch c st' ⟨n, some nm⟩ = .ok (.ok (c.dig n)) ∧ fetch c st' ⟨n, none⟩ = .ok (.ok (c.dig n)) := by
  have hpath : ∀ (l : List (Nat × Nat)), (((c.dig n, nm) :: l.filter (·.1 ≠ c.dig n)).find? (·.1 = c.dig n)).map (·.2) = some nm := by
    intro l; simp [List.find?]
  simp only [push, pushNamed, hn, if_false, Bool.false_eq_true, if_true, hb, false_and, Bool.not_false, Bool.and_true]
  refine ⟨trivial, ?_, ?_, ?_, ?_⟩
  · simp [exists_, pathOf, List.find?]
  · simp [exists_, pathOf, List.find?]
  · simp [fetch, gate, pathOf, fileAt, writeFile, List.find?]
  · simp [fetch, gate, pathOf, fileAt, writeFile, List.find?]

open FileSt in
/-- **`Tag`/`Resolve`** on the file store: the empty reference is rejected, tagging absent
    content is not-found and changes nothing, and a tagged reference resolves to the
    descriptor most recently tagged. -/
theorem c06_file_tag_resolve (c : StoreCfg) (st : FileSt) (d : SDesc) (r : Nat) :
    (tag c st d none = (st, .error .missingRef)) ∧ (resolve st none = .error .missingRef) ∧
    (exists_ c st d = false → tag c st d (some r) = (st, .error .notFound)) ∧
    (exists_ c st d = true → (tag c st d (some r)).2 = .ok () ∧ resolve (tag c st d (some r)).1 (some r) = .ok d) := by
  refine ⟨rfl, rfl, fun h => by simp [tag, h], fun h => ?_⟩
  simp [tag, h, resolve, List.find?]

/-- **Source facts** (regenerated): `saveFile` records the digest → path entry after the
    verified copy, and `pushFile` removes the file it created when that copy fails — the two
    parameters the file-store model is instantiated with by the driver. -/
theorem c06_source_facts :
    Gen.fileRecordsPathAfterCopy = true ∧ Gen.fileRemovesPartialOnFailure = true := by decide

/-- The order of the source matters: recording the digest → path entry *before* the
    verified copy makes a failed push visible — `Exists` turns true for the plain
    descriptor and `Fetch` hands back bytes that do not match it.  (The harness checks on
    every run that the code behaves like `recordEarly = false`.) -/
theorem c06_file_counterexample_record_early :
    let c : StoreCfg := ⟨fun _ => false, fun _ => [], id⟩
    let bad := (FileSt.push c true FileSt.empty ⟨1, some 7⟩ false).1
    let ok := (FileSt.push c false FileSt.empty ⟨1, some 7⟩ false).1
    FileSt.exists_ c bad ⟨1, none⟩ = true ∧ FileSt.fetch c bad ⟨1, none⟩ = .ok .garbage ∧
    FileSt.exists_ c ok ⟨1, none⟩ = false ∧ FileSt.fetch c ok ⟨1, none⟩ = .error .notFound := by
  refine ⟨by rfl, by rfl, by rfl, by rfl⟩

/-- Non-vacuity: two names for the same bytes both materialise when the manifest listing
    them is pushed (duplicate restoration), and both are fetched back. -/
example :
    let c : StoreCfg := ⟨fun n => n == 9, fun n => if n = 9 then [⟨1, some 5⟩, ⟨1, some 6⟩] else [], id⟩
    let s1 := (FileSt.push c false FileSt.empty ⟨1, some 5⟩ true).1
    let s2 := (FileSt.push c false s1 ⟨9, none⟩ true).1
    s2.names = [6, 5] ∧ FileSt.fetch c s2 ⟨1, some 6⟩ = .ok (.ok 1) ∧ FileSt.fetch c s2 ⟨1, some 5⟩ = .ok (.ok 1) ∧
    s2.predecessors 1 = [9] := by
  refine ⟨by rfl, by rfl, by rfl, by rfl⟩

end Oras.Props.C06
