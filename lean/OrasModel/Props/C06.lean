/-
  C06 — Built-in Targets behave as a content map plus a reference → descriptor map.
  Property theorems only: the OCI-layout store model (`Model/Oci.lean`) refines the
  abstract store (`Spec/AbsStore.lean`) operation by operation.
-/
import OrasModel.Proofs.Oci
import OrasModel.Spec.AbsStore
namespace Oras.Props.C06
open Oras Oras.OciSt

/-- Abstraction: which blobs have a file, and what each reference *name* resolves to. -/
def absOf (st : OciSt) : Abs :=
  { content := fun n => decide (n ∈ st.blobs), tags := fun nm => st.lookupRef (.tag nm) }

def errAbs : OErr → AErr
  | .alreadyExists => .alreadyExists | .notFound => .notFound | .missingRef => .missingRef
  | .invalidRef => .notFound | .hang => .notFound

def resAbs : Except OErr Unit → Except AErr Unit
  | .ok u => .ok u | .error e => .error (errAbs e)

theorem abs_ext (a b : Abs) (h1 : ∀ n, a.content n = b.content n) (h2 : ∀ k, a.tags k = b.tags k) : a = b := by
  cases a; cases b; simp only [Abs.mk.injEq]; exact ⟨funext h1, funext h2⟩

/-- **Push refines**: pushing present content is refused with already-exists and changes
    nothing; pushing absent (verified) content makes exactly that content present and
    leaves every reference name as it was. -/
theorem c06_push_refines (c : OciCfg) (st : OciSt) (n : Node) :
    absOf (st.push c n).1 = ((absOf st).push n).1 ∧ resAbs (st.push c n).2 = ((absOf st).push n).2 := by
  unfold OciSt.push Abs.push
  by_cases h : n ∈ st.blobs
  · simp [h, absOf, resAbs, errAbs]
  · simp only [h, if_false, absOf, decide_false, Bool.false_eq_true]
    by_cases hm : c.isMan n = true
    · simp only [hm, if_true, resAbs, and_true]
      apply abs_ext
      · intro m
        simp only [blobs_tagInternal, List.mem_cons]
        by_cases e : m = n <;> simp [e]
      · intro k
        show (OciSt.tagInternal _ n 0 (.dig n)).lookupRef (.tag k) = st.lookupRef (.tag k)
        rw [lookupRef_tagInternal_tag_other _ n 0 (.dig n) k (by intro e; cases e)]
        rfl
    · simp only [hm, Bool.false_eq_true, if_false, resAbs, and_true]
      apply abs_ext
      · intro m
        simp only [List.mem_cons]
        by_cases e : m = n <;> simp [e]
      · intro k; rfl

/-- **Tag refines** (reference names): the name then resolves to the descriptor just
    tagged, every other name is untouched, content is untouched; tagging absent content
    is not-found and changes nothing; the empty reference is rejected. -/
theorem c06_tag_refines (st : OciSt) (n : Node) (ann : Nat) (name : Option Nat) :
    absOf (st.tag n ann (name.map .tag)).1 = ((absOf st).tag n ann name).1 ∧
    resAbs (st.tag n ann (name.map .tag)).2 = ((absOf st).tag n ann name).2 := by
  unfold OciSt.tag Abs.tag
  cases name with
  | none => simp [resAbs, errAbs]
  | some nm =>
    simp only [Option.map]
    by_cases h : n ∈ st.blobs
    · simp only [h, if_true, absOf, decide_true, resAbs, and_true]
      apply abs_ext
      · intro m; simp [blobs_tagInternal]
      · intro k
        simp only
        by_cases e : k = nm
        · subst e; simp [lookupRef_tagInternal_same]
        · simp only [e, if_false]
          exact lookupRef_tagInternal_tag_other _ _ _ _ _ (by intro h'; injection h' with h'; exact e h')
    · simp [h, absOf, resAbs, errAbs]

/-- **Resolve refines** (reference names): the descriptor most recently tagged, or not-found. -/
theorem c06_resolve_refines (st : OciSt) (name : Option Nat) :
    (match st.resolve (name.map .tag) with
      | .ok (.full n a) => Except.ok (n, a)
      | .ok _ => .error AErr.notFound
      | .error e => .error (errAbs e)) = (absOf st).resolve name := by
  unfold OciSt.resolve Abs.resolve
  cases name with
  | none => simp [errAbs]
  | some nm =>
    simp only [Option.map, absOf]
    cases h : st.lookupRef (.tag nm) with
    | none => simp [errAbs]
    | some r => obtain ⟨n, a⟩ := r; simp

/-- **Untag refines**. -/
theorem c06_untag_refines (st : OciSt) (name : Option Nat) :
    absOf (st.untag (name.map .tag)).1 = ((absOf st).untag name).1 ∧
    resAbs (st.untag (name.map .tag)).2 = ((absOf st).untag name).2 := by
  cases name with
  | none => simp [OciSt.untag, Abs.untag, resAbs, errAbs]
  | some nm =>
    have habs : (absOf st).tags nm = st.lookupRef (.tag nm) := rfl
    cases h : st.lookupRef (.tag nm) with
    | none =>
      simp [OciSt.untag, Abs.untag, h, habs, resAbs, errAbs]
    | some r =>
      simp only [OciSt.untag, Abs.untag, Option.map, h, habs, resAbs, and_true]
      apply abs_ext
      · intro m; simp [absOf]
      · intro k
        show ((st.resolverUntag (.tag nm)).autosave).lookupRef (.tag k) = _
        simp only [lookupRef_autosave]
        by_cases e : k = nm
        · subst e; simp [lookupRef_resolverUntag_same]
        · simp only [e, if_false]
          rw [lookupRef_resolverUntag_other _ _ _ (by intro h'; injection h' with h'; exact e h')]
          rfl

/-- **A refused or failed operation changes nothing** (push, tag, untag). -/
theorem c06_failed_op_is_noop (c : OciCfg) (st : OciSt) (n : Node) (ann : Nat) (k : Option RefKey) :
    ((st.push c n).2 ≠ .ok () → (st.push c n).1 = st) ∧
    ((st.tag n ann k).2 ≠ .ok () → (st.tag n ann k).1 = st) ∧
    ((st.untag k).2 ≠ .ok () → (st.untag k).1 = st) := by
  refine ⟨?_, ?_, ?_⟩
  · unfold OciSt.push
    by_cases h : n ∈ st.blobs
    · simp [h]
    · simp only [h, if_false]
      split <;> simp
  · unfold OciSt.tag
    cases k with
    | none => simp
    | some k => by_cases h : n ∈ st.blobs <;> simp [h]
  · unfold OciSt.untag
    cases k with
    | none => simp
    | some k =>
      cases h : st.lookupRef k with
      | none => simp [h]
      | some r => cases k <;> simp [h]

/-- Fetch / Exists answer from the content map alone; after a successful push, fetch
    returns exactly the pushed content. -/
theorem c06_fetch_after_push (c : OciCfg) (st : OciSt) (n : Node) (h : (st.push c n).2 = .ok ()) :
    n ∈ (st.push c n).1.blobs ∧ ∀ m, m ≠ n → (m ∈ (st.push c n).1.blobs ↔ m ∈ st.blobs) := by
  unfold OciSt.push at h ⊢
  by_cases hb : n ∈ st.blobs
  · simp [hb] at h
  · simp only [hb, if_false]
    by_cases hm : c.isMan n = true
    · simp only [hm, if_true, blobs_tagInternal, List.mem_cons, true_or, true_and]
      intro m hne; simp [hne]
    · simp only [hm, Bool.false_eq_true, if_false, List.mem_cons, true_or, true_and]
      intro m hne; simp [hne]

/-- Spec-level commutation: pushes commute, so the state after concurrent pushes quiesce
    does not depend on their order. -/
theorem c06_push_commute (a : Abs) (m n : Node) :
    ((a.push m).1.push n).1 = ((a.push n).1.push m).1 := by
  apply abs_ext
  · intro x
    unfold Abs.push
    by_cases hm : a.content m = true <;> by_cases hn : a.content n = true <;>
      by_cases e : m = n <;> by_cases e1 : x = m <;> by_cases e2 : x = n <;>
      (have e' : (n = m) = (m = n) := propext ⟨Eq.symm, Eq.symm⟩) <;> simp_all
  · intro k
    unfold Abs.push
    by_cases hm : a.content m = true <;> by_cases hn : a.content n = true <;>
      by_cases e : m = n <;> (have e' : (n = m) = (m = n) := propext ⟨Eq.symm, Eq.symm⟩) <;> simp_all

/-- Non-vacuity: a short history on the model. -/
example :
    let c : OciCfg := { succ := fun n => if n = 2 then [0, 1] else [], isMan := fun n => n == 2, subject := fun _ => none }
    let s1 := (OciSt.empty.push c 0).1
    let s2 := (s1.push c 2).1
    let s3 := (s2.tag 2 1 (some (.tag 7))).1
    (s3.resolve (some (.tag 7)) = .ok (.full 2 1)) ∧ (s3.push c 2).2 = .error .alreadyExists ∧
    (s3.tag 5 0 (some (.tag 1))).2 = .error .notFound ∧ s3.resolve (some (.dig 2)) = .ok (.plain 2) := by
  refine ⟨by rfl, by rfl, by rfl, by rfl⟩

end Oras.Props.C06
