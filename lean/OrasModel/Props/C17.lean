/-
  C17 — Re-sent requests carry the whole body; retries are bounded and paced.
  Property theorems only.  Model: `Model/Retry.lean`.
-/
import OrasModel.Model.Retry
import OrasModel.Gen.Facts
namespace Oras.Props.C17
open Oras

/-- Invariant of the retry loop: attempts made so far = attempt index, bodies fine. -/
theorem roundTrip_spec (p : RetryPolicy) (body : BodyKind) (cancelAt : Option Nat) (hmm : p.minWait ≤ p.maxWait) :
    ∀ (script : List Srv) (attempt : Nat) (consumed : Bool) (recv : List Recv) (pauses : List Int),
      recv.length = attempt → attempt ≤ p.maxRetry →
      (∀ d ∈ pauses, p.minWait ≤ d ∧ d ≤ p.maxWait) →
      (∀ r ∈ recv, r ≠ .truncated) → (body = .oneshot → consumed = true → recv ≠ [] → False) →
      (consumed = true → body = .oneshot → attempt > 0) →
      let res := roundTrip p body cancelAt script attempt consumed recv pauses
      res.recv.length ≤ p.maxRetry + 1 ∧
      (∀ d ∈ res.pauses, p.minWait ≤ d ∧ d ≤ p.maxWait) ∧
      (∀ r ∈ res.recv, r ≠ .truncated ∨ (body = .oneshot ∧ consumed = true ∧ recv = [])) := by
  intro script
  induction script with
  | nil =>
    intro attempt consumed recv pauses h1 h2 h3 h4 _ _
    simp only [roundTrip]
    exact ⟨by omega, h3, fun r hr => Or.inl (h4 r hr)⟩
  | cons s rest ih =>
    intro attempt consumed recv pauses h1 h2 h3 h4 h5 h6
    have hrecv' : ∀ r ∈ recv ++ [recvOf body consumed], r ≠ .truncated ∨ (body = .oneshot ∧ consumed = true ∧ recv = []) := by
      intro r hr
      rcases List.mem_append.mp hr with h | h
      · exact Or.inl (h4 r h)
      · simp only [List.mem_singleton] at h
        subst h
        unfold recvOf
        cases body with
        | none => left; simp
        | replay => left; simp
        | oneshot =>
          cases hc : consumed with
          | false => left; simp
          | true =>
            by_cases he : recv = []
            · right; exact ⟨rfl, rfl, he⟩
            · exact absurd he (fun _ => h5 rfl hc he)
    have hlen : (recv ++ [recvOf body consumed]).length = attempt + 1 := by simp [h1]
    simp only [roundTrip]
    by_cases hmax : attempt ≥ p.maxRetry
    · simp only [hmax, if_true]
      exact ⟨by rw [hlen]; omega, h3, hrecv'⟩
    · simp only [hmax, if_false]
      cases hr : retryable s with
      | none => exact ⟨by rw [hlen]; omega, h3, hrecv'⟩
      | some b =>
        cases b with
        | false => exact ⟨by rw [hlen]; omega, h3, hrecv'⟩
        | true =>
          simp only
          have hclamp : p.minWait ≤ clamp p (p.backoff attempt) ∧ clamp p (p.backoff attempt) ≤ p.maxWait := by
            unfold clamp
            simp only
            split <;> split <;> omega
          have hp' : ∀ d ∈ pauses ++ [clamp p (p.backoff attempt)], p.minWait ≤ d ∧ d ≤ p.maxWait := by
            intro d hd
            rcases List.mem_append.mp hd with h | h
            · exact h3 d h
            · simp only [List.mem_singleton] at h; subst h; exact hclamp
          by_cases hone : body = .oneshot
          · simp only [hone, beq_self_eq_true, if_true]
            subst hone
            exact ⟨by rw [hlen]; omega, hp', fun r hr => by simpa using hrecv' r hr⟩
          · have hb : (body == BodyKind.oneshot) = false := by
              cases body <;> simp_all
            simp only [hb, Bool.false_eq_true, if_false]
            by_cases hc : cancelAt = some pauses.length
            · simp only [hc, beq_self_eq_true, if_true]
              exact ⟨by rw [hlen]; omega, hp', hrecv'⟩
            · have hcb : (cancelAt == some pauses.length) = false := by simpa using hc
              simp only [hcb, Bool.false_eq_true, if_false]
              -- body is not one-shot: nothing is ever truncated, consumed stays harmless
              have h4' : ∀ r ∈ recv ++ [recvOf body consumed], r ≠ .truncated := by
                intro r hr
                rcases hrecv' r hr with h | h
                · exact h
                · exact absurd h.1 hone
              have := ih (attempt + 1) (consumed || body == .oneshot) (recv ++ [recvOf body consumed])
                (pauses ++ [clamp p (p.backoff attempt)]) hlen (by omega) hp' h4'
                (fun h _ _ => hone h) (fun _ h => absurd h hone)
              simp only [hb] at this
              obtain ⟨a, b, c⟩ := this
              refine ⟨a, b, ?_⟩
              intro r hr
              rcases c r hr with h | h
              · exact Or.inl h
              · exact absurd h.1 hone

/-- **Bounded attempts**: one send makes at most `MaxRetry + 1` attempts — for every
    server behaviour, body kind, policy and cancellation point. -/
theorem c17_attempts (p : RetryPolicy) (body : BodyKind) (cancelAt : Option Nat) (script : List Srv)
    (hmm : p.minWait ≤ p.maxWait) :
    (roundTrip p body cancelAt script 0 false [] []).recv.length ≤ p.maxRetry + 1 :=
  (roundTrip_spec p body cancelAt hmm script 0 false [] [] rfl (Nat.zero_le _)
    (by intro d hd; cases hd) (by intro r hr; cases hr) (by intro _ h; cases h) (by intro h; cases h)).1

/-- **Paced**: every pause lies within `[MinWait, MaxWait]` for every attempt number and
    every value the backoff function may return (negative, huge, anything). -/
theorem c17_clamp (p : RetryPolicy) (body : BodyKind) (cancelAt : Option Nat) (script : List Srv)
    (hmm : p.minWait ≤ p.maxWait) :
    ∀ d ∈ (roundTrip p body cancelAt script 0 false [] []).pauses, p.minWait ≤ d ∧ d ≤ p.maxWait :=
  (roundTrip_spec p body cancelAt hmm script 0 false [] [] rfl (Nat.zero_le _)
    (by intro d hd; cases hd) (by intro r hr; cases hr) (by intro _ h; cases h) (by intro h; cases h)).2.1

/-- **Whole body on every attempt**: within one send no attempt ever carries a truncated
    body (a one-shot body is sent once and never re-sent). -/
theorem c17_full_body (p : RetryPolicy) (body : BodyKind) (cancelAt : Option Nat) (script : List Srv)
    (hmm : p.minWait ≤ p.maxWait) :
    ∀ r ∈ (roundTrip p body cancelAt script 0 false [] []).recv, r ≠ .truncated := by
  intro r hr
  have := (roundTrip_spec p body cancelAt hmm script 0 false [] [] rfl (Nat.zero_le _)
    (by intro d hd; cases hd) (by intro r hr; cases hr) (by intro _ h; cases h) (by intro h; cases h)).2.2 r hr
  rcases this with h | h
  · exact h
  · cases h.2.1

/-- **Non-retryable answers are returned at once.** -/
theorem c17_nonretryable_immediate (p : RetryPolicy) (body : BodyKind) (cancelAt : Option Nat)
    (s : Srv) (rest : List Srv) (h : retryable s = some false) :
    (roundTrip p body cancelAt (s :: rest) 0 false [] []).recv.length = 1 ∧
    (roundTrip p body cancelAt (s :: rest) 0 false [] []).outcome = .resp s ∧
    (roundTrip p body cancelAt (s :: rest) 0 false [] []).pauses = [] := by
  simp only [roundTrip]
  by_cases hm : 0 ≥ p.maxRetry <;> simp [hm, h]

/-- **Cancellation during a pause** ends the call with the context's error and no further
    attempt: cancelling the first pause leaves exactly one attempt. -/
theorem c17_cancel (p : RetryPolicy) (body : BodyKind) (s : Srv) (rest : List Srv)
    (hr : retryable s = some true) (hb : body ≠ .oneshot) (hm : 0 < p.maxRetry) :
    (roundTrip p body (some 0) (s :: rest) 0 false [] []).outcome = .ctxErr ∧
    (roundTrip p body (some 0) (s :: rest) 0 false [] []).recv.length = 1 := by
  have hb' : (body == BodyKind.oneshot) = false := by cases body <;> simp_all
  have hm' : ¬ (0 ≥ p.maxRetry) := by omega
  simp [roundTrip, hm', hr, hb']

/-- **The auth client never re-sends a body it cannot replay**: after a 401, a one-shot
    body makes the call stop with an error; with a replayable body the second send carries
    the whole body again. -/
theorem c17_auth_resend (p : RetryPolicy) (body : BodyKind) (script : List Srv)
    (hmm : p.minWait ≤ p.maxWait) :
    ∀ r ∈ (authDo p body script).1, r ≠ .truncated := by
  unfold authDo
  have h1 := c17_full_body p body none script hmm
  simp only
  generalize hr1 : roundTrip p body none script 0 false [] [] = r1 at h1
  cases ho : r1.outcome with
  | resp s =>
    cases s with
    | unauthorized b =>
      simp only
      by_cases hone : body = .oneshot
      · simp only [hone, beq_self_eq_true, if_true]; exact h1
      · have hb : (body == BodyKind.oneshot) = false := by cases body <;> simp_all
        simp only [hb, Bool.false_eq_true, if_false]
        intro r hr
        rcases List.mem_append.mp hr with h | h
        · exact h1 r h
        · -- second send: the body is replayable or absent, never truncated
          have := (roundTrip_spec p body none hmm r1.rest 0 r1.consumed [] [] rfl (Nat.zero_le _)
            (by intro d hd; cases hd) (by intro r hr; cases hr) (by intro h; exact absurd h hone)
            (by intro _ h; exact absurd h hone)).2.2 r h
          rcases this with h' | h'
          · exact h'
          · exact absurd h'.1 hone
    | status c ra => exact h1
    | timeout => exact h1
    | netErr => exact h1
  | predicateErr => simpa [ho] using h1
  | ctxErr => simpa [ho] using h1
  | notRewindable => simpa [ho] using h1
  | exhausted => simpa [ho] using h1

/-- **The backoff is total** (repair of F11): with the guard the jitter term is defined for
    every range; without it, a zero or negative range (jitter 0, or overflow at large
    attempt numbers) is a panic. -/
theorem c17_backoff_total (n r : Int) : (jitterTerm true n r).isSome = true := by
  unfold jitterTerm; split <;> simp

/-- The current source guards the call (fact re-extracted from `policy.go` on every run). -/
theorem c17_source_guards_jitter : Gen.backoffGuardsJitter = true := by decide

theorem c17_counterexample_unguarded : jitterTerm false 0 5 = none ∧ jitterTerm false (-3) 5 = none := by
  decide

/-- Non-vacuity: 503, 503, 200 with a replayable body under the default-like policy. -/
example :
    let p : RetryPolicy := ⟨5, 200, 3000, fun i => 250 * 2 ^ i⟩
    let r := roundTrip p .replay none [.status 503 none, .status 429 (some 1), .status 200 none] 0 false [] []
    r.recv = [.full, .full, .full] ∧ r.pauses = [250, 500] ∧ r.outcome = .resp (.status 200 none) := by
  decide

end Oras.Props.C17
