/-
  C17 — Re-sent requests carry the whole body; retries are bounded and paced.
  Property theorems only.  Model: `Model/Retry.lean`.
-/
import OrasModel.Model.Retry
import OrasModel.Model.AuthBody
import OrasModel.Gen.Facts
namespace Oras.Props.C17
open Oras

/-- Invariant of the retry loop: attempts made so far = attempt index, bodies fine. -/
theorem roundTrip_spec (p : RetryPolicy) (body : BodyKind) (cancelAt : Option Nat) (hmm : p.minWait ≤ p.maxWait) :
    ∀ (script : List Srv) (attempt : Nat) (consumed : Bool) (recv : List Recv) (pauses : List Int),
      recv.length = attempt → attempt ≤ p.maxRetry →
      (∀ d ∈ pauses, p.minWait ≤ d ∧ d ≤ p.maxWait) →
      (∀ r ∈ recv, r ≠ .truncated) → (body = .oneshot → consumed = true → recv ≠ [] → False) →
      (consumed = true → body = .oneshot → attempt > 0) →
      let res := roundTrip p body cancelAt script attempt consumed recv pauses
      res.recv.length ≤ p.maxRetry + 1 ∧
      (∀ d ∈ res.pauses, p.minWait ≤ d ∧ d ≤ p.maxWait) ∧
      (∀ r ∈ res.recv, r ≠ .truncated ∨ (body = .oneshot ∧ consumed = true ∧ recv = [])) := by
  intro script
  induction script with
  | nil =>
    intro attempt consumed recv pauses h1 h2 h3 h4 _ _
    simp only [roundTrip]
    exact ⟨by omega, h3, fun r hr => Or.inl (h4 r hr)⟩
  | cons s rest ih =>
    intro attempt consumed recv pauses h1 h2 h3 h4 h5 h6
    have hrecv' : ∀ r ∈ recv ++ [recvOf body consumed], r ≠ .truncated ∨ (body = .oneshot ∧ consumed = true ∧ recv = []) := by
      intro r hr
      rcases List.mem_append.mp hr with h | h
      · exact Or.inl (h4 r h)
      · simp only [List.mem_singleton] at h
        subst h
        unfold recvOf
        cases body with
        | none => left; simp
        | replay => left; simp
        | oneshot =>
          cases hc : consumed with
          | false => left; simp
          | true =>
            by_cases he : recv = []
            · right; exact ⟨rfl, rfl, he⟩
            · exact absurd he (fun _ => h5 rfl hc he)
    have hlen : (recv ++ [recvOf body consumed]).length = attempt + 1 := by simp [h1]
    simp only [roundTrip]
    by_cases hmax : attempt ≥ p.maxRetry
    · simp only [hmax, if_true]
      exact ⟨by rw [hlen]; omega, h3, hrecv'⟩
    · simp only [hmax, if_false]
      cases hr : retryable s with
      | none => exact ⟨by rw [hlen]; omega, h3, hrecv'⟩
      | some b =>
        cases b with
        | false => exact ⟨by rw [hlen]; omega, h3, hrecv'⟩
        | true =>
          simp only
          have hclamp : p.minWait ≤ clamp p (p.backoff attempt) ∧ clamp p (p.backoff attempt) ≤ p.maxWait := by
            unfold clamp
            simp only
            split <;> split <;> omega
          have hp' : ∀ d ∈ pauses ++ [clamp p (p.backoff attempt)], p.minWait ≤ d ∧ d ≤ p.maxWait := by
            intro d hd
            rcases List.mem_append.mp hd with h | h
            · exact h3 d h
            · simp only [List.mem_singleton] at h; subst h; exact hclamp
          by_cases hone : body = .oneshot
          · simp only [hone, beq_self_eq_true, if_true]
            subst hone
            exact ⟨by rw [hlen]; omega, hp', fun r hr => by simpa using hrecv' r hr⟩
          · have hb : (body == BodyKind.oneshot) = false := by
              cases body <;> simp_all
            simp only [hb, Bool.false_eq_true, if_false]
            by_cases hc : cancelAt = some pauses.length
            · simp only [hc, beq_self_eq_true, if_true]
              exact ⟨by rw [hlen]; omega, hp', hrecv'⟩
            · have hcb : (cancelAt == some pauses.length) = false := by simpa using hc
              simp only [hcb, Bool.false_eq_true, if_false]
              -- body is not one-shot: nothing is ever truncated, consumed stays harmless
              have h4' : ∀ r ∈ recv ++ [recvOf body consumed], r ≠ .truncated := by
                intro r hr
                rcases hrecv' r hr with h | h
                · exact h
                · exact absurd h.1 hone
              have := ih (attempt + 1) (consumed || body == .oneshot) (recv ++ [recvOf body consumed])
                (pauses ++ [clamp p (p.backoff attempt)]) hlen (by omega) hp' h4'
                (fun h _ _ => hone h) (fun _ h => absurd h hone)
              simp only [hb] at this
              obtain ⟨a, b, c⟩ := this
              refine ⟨a, b, ?_⟩
              intro r hr
              rcases c r hr with h | h
              · exact Or.inl h
              · exact absurd h.1 hone

/-- **Bounded attempts**: one send makes at most `MaxRetry + 1` attempts — for every
    server behaviour, body kind, policy and cancellation point. -/
theorem c17_attempts (p : RetryPolicy) (body : BodyKind) (cancelAt : Option Nat) (script : List Srv)
    (hmm : p.minWait ≤ p.maxWait) :
    (roundTrip p body cancelAt script 0 false [] []).recv.length ≤ p.maxRetry + 1 :=
  (roundTrip_spec p body cancelAt hmm script 0 false [] [] rfl (Nat.zero_le _)
    (by intro d hd; cases hd) (by intro r hr; cases hr) (by intro _ h; cases h) (by intro h; cases h)).1

/-- **Paced**: every pause lies within `[MinWait, MaxWait]` for every attempt number and
    every value the backoff function may return (negative, huge, anything). -/
theorem c17_clamp (p : RetryPolicy) (body : BodyKind) (cancelAt : Option Nat) (script : List Srv)
    (hmm : p.minWait ≤ p.maxWait) :
    ∀ d ∈ (roundTrip p body cancelAt script 0 false [] []).pauses, p.minWait ≤ d ∧ d ≤ p.maxWait :=
  (roundTrip_spec p body cancelAt hmm script 0 false [] [] rfl (Nat.zero_le _)
    (by intro d hd; cases hd) (by intro r hr; cases hr) (by intro _ h; cases h) (by intro h; cases h)).2.1

/-- **Whole body on every attempt**: within one send no attempt ever carries a truncated
    body (a one-shot body is sent once and never re-sent). -/
theorem c17_full_body (p : RetryPolicy) (body : BodyKind) (cancelAt : Option Nat) (script : List Srv)
    (hmm : p.minWait ≤ p.maxWait) :
    ∀ r ∈ (roundTrip p body cancelAt script 0 false [] []).recv, r ≠ .truncated := by
  intro r hr
  have := (roundTrip_spec p body cancelAt hmm script 0 false [] [] rfl (Nat.zero_le _)
    (by intro d hd; cases hd) (by intro r hr; cases hr) (by intro _ h; cases h) (by intro h; cases h)).2.2 r hr
  rcases this with h | h
  · exact h
  · cases h.2.1

/-- **Non-retryable answers are returned at once.** -/
theorem c17_nonretryable_immediate (p : RetryPolicy) (body : BodyKind) (cancelAt : Option Nat)
    (s : Srv) (rest : List Srv) (h : retryable s = some false) :
    (roundTrip p body cancelAt (s :: rest) 0 false [] []).recv.length = 1 ∧
    (roundTrip p body cancelAt (s :: rest) 0 false [] []).outcome = .resp s ∧
    (roundTrip p body cancelAt (s :: rest) 0 false [] []).pauses = [] := by
  simp only [roundTrip]
  by_cases hm : 0 ≥ p.maxRetry <;> simp [hm, h]

/-- **Cancellation during a pause** ends the call with the context's error and no further
    attempt: cancelling the first pause leaves exactly one attempt. -/
theorem c17_cancel (p : RetryPolicy) (body : BodyKind) (s : Srv) (rest : List Srv)
    (hr : retryable s = some true) (hb : body ≠ .oneshot) (hm : 0 < p.maxRetry) :
    (roundTrip p body (some 0) (s :: rest) 0 false [] []).outcome = .ctxErr ∧
    (roundTrip p body (some 0) (s :: rest) 0 false [] []).recv.length = 1 := by
  have hb' : (body == BodyKind.oneshot) = false := by cases body <;> simp_all
  have hm' : ¬ (0 ≥ p.maxRetry) := by omega
  simp [roundTrip, hm', hr, hb']

/-- **The auth client never re-sends a body it cannot replay**: after a 401, a one-shot
    body makes the call stop with an error; with a replayable body the second send carries
    the whole body again. -/
theorem c17_auth_resend (p : RetryPolicy) (body : BodyKind) (script : List Srv)
    (hmm : p.minWait ≤ p.maxWait) :
    ∀ r ∈ (authDo p body script).1, r ≠ .truncated := by
  unfold authDo
  have h1 := c17_full_body p body none script hmm
  simp only
  generalize hr1 : roundTrip p body none script 0 false [] [] = r1 at h1
  cases ho : r1.outcome with
  | resp s =>
    cases s with
    | unauthorized b =>
      simp only
      by_cases hone : body = .oneshot
      · simp only [hone, beq_self_eq_true, if_true]; exact h1
      · have hb : (body == BodyKind.oneshot) = false := by cases body <;> simp_all
        simp only [hb, Bool.false_eq_true, if_false]
        intro r hr
        rcases List.mem_append.mp hr with h | h
        · exact h1 r h
        · -- second send: the body is replayable or absent, never truncated
          have := (roundTrip_spec p body none hmm r1.rest 0 r1.consumed [] [] rfl (Nat.zero_le _)
            (by intro d hd; cases hd) (by intro r hr; cases hr) (by intro h; exact absurd h hone)
            (by intro _ h; exact absurd h hone)).2.2 r h
          rcases this with h' | h'
          · exact h'
          · exact absurd h'.1 hone
    | status c ra => exact h1
    | timeout => exact h1
    | netErr => exact h1
  | predicateErr => simpa [ho] using h1
  | ctxErr => simpa [ho] using h1
  | notRewindable => simpa [ho] using h1
  | exhausted => simpa [ho] using h1

/-! ### The auth client with its token cache: up to three sends per `Do` -/

/-- **Every send of one `Client.Do` carries the whole body** — first send, cached-token
    retry after a scope change, and the send after the token fetch — for every cache
    state, request, credential, challenge sequence and body kind: no receiver ever sees a
    truncated body. -/
theorem c17_auth_cached_resend_full (c : ACache) (i : DoIn) (body : BodyKind) :
    ∀ x ∈ (authFlowB c i body).1, x.2 ≠ .truncated := by
  have hf : recvFirst body ≠ .truncated := by cases body <;> simp [recvFirst]
  have ha : ∀ o : Out, ∀ x ∈ (if canRewind body then [(o, recvAgain body)] else []), x.2 ≠ Recv.truncated := by
    intro o x hx
    cases body <;> simp_all [canRewind, recvAgain]
  have hr : canRewind body = true → recvAgain body ≠ .truncated := by
    cases body <;> simp [canRewind, recvAgain]
  intro x hx
  unfold authFlowB at hx
  cases h1 : i.r1 with
  | final => simp only [h1, List.mem_singleton] at hx; rw [hx]; exact hf
  | unknown => simp only [h1, List.mem_singleton] at hx; rw [hx]; exact hf
  | basic =>
    simp only [h1] at hx
    split at hx
    · rcases List.mem_cons.mp hx with h | h
      · rw [h]; exact hf
      · exact ha _ x h
    · simp only [List.mem_singleton] at hx; rw [hx]; exact hf
  | bearer realm key =>
    simp only [h1] at hx
    split at hx
    · simp only [List.mem_singleton] at hx; rw [hx]; exact hf
    · rename_i hcond
      -- either no retry is made or the body can be rewound
      have hretry : ∀ y ∈ (retryAttempt c i (firstAttempt c i).2 key).1.map (fun o => (o, recvAgain body)),
          y.2 ≠ Recv.truncated := by
        intro y hy
        obtain ⟨o, ho, rfl⟩ := List.mem_map.mp hy
        have hne : (retryAttempt c i (firstAttempt c i).2 key).1.isEmpty = false := by
          cases hl : (retryAttempt c i (firstAttempt c i).2 key).1 with
          | nil => rw [hl] at ho; cases ho
          | cons _ _ => rfl
        have hc : canRewind body = true := by
          cases hcr : canRewind body with
          | true => rfl
          | false => simp [hne, hcr] at hcond
        exact hr hc
      split at hx
      · rcases List.mem_cons.mp hx with h | h
        · rw [h]; exact hf
        · exact hretry x h
      · split at hx
        · rcases List.mem_cons.mp hx with h | h
          · rw [h]; exact hf
          · rcases List.mem_append.mp h with h | h
            · exact hretry x h
            · exact ha _ x h
        · split at hx
          · rcases List.mem_cons.mp hx with h | h
            · rw [h]; exact hf
            · rcases List.mem_append.mp h with h | h
              · exact hretry x h
              · simp only [List.mem_singleton] at h; rw [h]; simp
          · rcases List.mem_cons.mp hx with h | h
            · rw [h]; exact hf
            · rcases List.mem_append.mp h with h | h
              · rcases List.mem_append.mp h with h | h
                · exact hretry x h
                · simp only [List.mem_singleton] at h; rw [h]; simp
              · exact ha _ x h

/-- **A body that cannot be replayed is sent to the registry once**: with a one-shot body
    `Do` makes no second registry send, whatever the cache holds. -/
theorem c17_auth_oneshot_single_send (c : ACache) (i : DoIn) :
    ((authFlowB c i .oneshot).1.filter (fun x => x.1.kind == .registry)).length ≤ 1 := by
  unfold authFlowB
  cases h1 : i.r1 with
  | final => simp
  | unknown => simp
  | basic => simp only [canRewind]; split <;> simp
  | bearer realm key =>
    simp only [canRewind, Bool.not_false, Bool.and_true, Bool.false_eq_true, if_false, List.append_nil]
    split
    · simp
    · rename_i hcond
      have hnil : (retryAttempt c i (firstAttempt c i).2 key).1 = [] := by
        cases hl : (retryAttempt c i (firstAttempt c i).2 key).1 with
        | nil => rfl
        | cons _ _ => simp [hl] at hcond
      have h2 : (retryAttempt c i (firstAttempt c i).2 key).2 = false := by
        unfold retryAttempt at hnil ⊢
        by_cases hk : some key ≠ (firstAttempt c i).2
        · rw [if_pos hk] at hnil ⊢
          cases hg : c.getToken i.host .bearer key with
          | none => rfl
          | some t => rw [hg] at hnil; simp at hnil
        · rw [if_neg hk]
      simp only [hnil, h2, List.map_nil, Bool.false_eq_true, if_false, List.nil_append]
      split
      · simp
      · split <;> simp

/-- With a body that can be replayed (or none) the sends are exactly those of the flow the
    C16 theorems are about, and the cache ends up the same. -/
theorem c17_authFlowB_erases (c : ACache) (i : DoIn) (body : BodyKind) (hb : body ≠ .oneshot) :
    (authFlowB c i body).1.map (·.1) = (authFlow c i).1 ∧ (authFlowB c i body).2 = (authFlow c i).2 := by
  have hc : canRewind body = true := by cases body <;> simp_all [canRewind]
  unfold authFlowB authFlow
  cases h1 : i.r1 with
  | final => simp
  | unknown => simp
  | basic => simp only [hc, if_true]; split <;> simp
  | bearer realm key =>
    simp only [hc, Bool.not_true, Bool.and_false, Bool.false_eq_true, if_false, if_true]
    split
    · simp [List.map_map, Function.comp_def]
    · split
      · simp [List.map_map, Function.comp_def]
      · cases hfo : i.fetchOk <;> simp [List.map_map, Function.comp_def]

/-- Non-vacuity: a cached bearer token under a changed scope key gives three registry
    sends and one token fetch, each registry send with the whole body. -/
example :
    let c : ACache := [(1, ⟨.bearer, [(7, .tok 1 3)]⟩)]
    let i : DoIn := ⟨1, 0, ⟨true, false, false⟩, false, .bearer 9 7, .bearer 9 7, some 4⟩
    (authFlowB c i .replay).1.map (·.2) = [.full, .full, .none, .full] := by
  decide

/-- **The backoff is total** (repair of F11): with the guard the jitter term is defined for
    every range; without it, a zero or negative range (jitter 0, or overflow at large
    attempt numbers) is a panic. -/
theorem c17_backoff_total (n r : Int) : (jitterTerm true n r).isSome = true := by
  unfold jitterTerm; split <;> simp

/-- The current source guards the call (fact re-extracted from `policy.go` on every run). -/
theorem c17_source_guards_jitter : Gen.backoffGuardsJitter = true := by decide

theorem c17_counterexample_unguarded : jitterTerm false 0 5 = none ∧ jitterTerm false (-3) 5 = none := by
  decide

/-- Non-vacuity: 503, 503, 200 with a replayable body under the default-like policy. -/
example :
    let p : RetryPolicy := ⟨5, 200, 3000, fun i => 250 * 2 ^ i⟩
    let r := roundTrip p .replay none [.status 503 none, .status 429 (some 1), .status 200 none] 0 false [] []
    r.recv = [.full, .full, .full] ∧ r.pauses = [250, 500] ∧ r.outcome = .resp (.status 200 none) := by
  decide

/-- **`Retry-After` on a 429 is honoured**: every positive number of seconds, 1 included,
    decides the pause; every other status, and a header that is absent, not a number, zero or
    negative, leaves the exponential value. -/
theorem c17_retry_after_honoured (ra : Int) (expo : Int) (h : ra > 0) :
    retryAfterPause 429 (some ra) expo = ra * 1000000000 := by
  unfold retryAfterPause
  simp [h]

theorem c17_retry_after_otherwise (status : Nat) (ra : Option Int) (expo : Int)
    (h : status ≠ 429 ∨ ra = none ∨ ∃ v, ra = some v ∧ v ≤ 0) : retryAfterPause status ra expo = expo := by
  unfold retryAfterPause
  rcases h with h | h | ⟨v, hv, hle⟩
  · simp [h]
  · subst h; split <;> rfl
  · subst hv
    have : ¬ v > 0 := by omega
    split <;> simp [this]

/-- The seeded change C17/m10 (`> 1` instead of `> 0`) ignores `Retry-After: 1`. -/
example : retryAfterPause 429 (some 1) 250000000 = 1000000000 := by decide

end Oras.Props.C17
