import OrasModel.Model.Basic
import OrasModel.Model.GraphMem
